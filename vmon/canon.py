"""Canonical, type-strict JSON.  true != 1 != 1.0; key order irrelevant."""
import hashlib
import json


class NotPlainJSON(Exception):
    pass


def to_plain(x, _path=""):
    if isinstance(x, dict):
        out = {}
        for k, v in x.items():
            if not isinstance(k, str):
                raise NotPlainJSON("non-string key %r at %s" % (k, _path))
            out[k] = to_plain(v, _path + "/" + k)
        return out
    if isinstance(x, (list, tuple)):
        return [to_plain(v, "%s/%d" % (_path, i)) for i, v in enumerate(x)]
    if x is None or isinstance(x, (bool, int, float, str)):
        return x
    raise NotPlainJSON("non-JSON value %r (%s) at %s" % (x, type(x).__name__, _path))


def _nz(x):
    """-0.0 and 0.0 are one JSON number (same type, same value; only the sign in the text differs)"""
    if isinstance(x, float) and x == 0.0:
        return 0.0
    if isinstance(x, dict):
        return {k: _nz(v) for k, v in x.items()}
    if isinstance(x, list):
        return [_nz(v) for v in x]
    return x


def canon(x):
    return json.dumps(_nz(to_plain(x)), sort_keys=True, ensure_ascii=True, allow_nan=False)


def seq(a, b):
    """type-strict JSON equality"""
    return canon(a) == canon(b)


def chash(*xs):
    h = hashlib.sha1()
    for x in xs:
        h.update(canon(x).encode())
        h.update(b"\0")
    return h.hexdigest()[:16]


def numnorm(x):
    """Map bool/int/float to one numeric type (used only by known-finding classifiers
    and by the Python/TypeScript comparison, where 1 and 1.0 are one JSON number)."""
    if isinstance(x, dict):
        return {k: numnorm(v) for k, v in x.items()}
    if isinstance(x, (list, tuple)):
        return [numnorm(v) for v in x]
    if isinstance(x, bool):
        return float(x)
    if isinstance(x, (int, float)):
        return float(x)
    return x


def intfloatnorm(x):
    """Map integral floats to ints but keep bools: what a JSON round trip through
    JavaScript does (1.0 -> 1, true stays true)."""
    if isinstance(x, dict):
        return {k: intfloatnorm(v) for k, v in x.items()}
    if isinstance(x, (list, tuple)):
        return [intfloatnorm(v) for v in x]
    if isinstance(x, float) and x == x and abs(x) != float("inf") and x == int(x) and abs(x) < 1e21:   # JS prints 1e21 and above in exponent form
        return int(x)
    return x


def first_difference(a, b, path=""):
    """Human-readable location of the first type-strict difference (for witnesses)."""
    a = to_plain(a)
    b = to_plain(b)
    return _fd(a, b, path)


def _fd(a, b, path):
    if type(a) is not type(b):
        return "%s: type %s vs %s (%.80r vs %.80r)" % (path or "/", type(a).__name__, type(b).__name__, a, b)
    if isinstance(a, dict):
        for k in sorted(set(a) | set(b)):
            if k not in a:
                return "%s/%s: missing on left" % (path, k)
            if k not in b:
                return "%s/%s: missing on right" % (path, k)
            r = _fd(a[k], b[k], path + "/" + k)
            if r:
                return r
        return None
    if isinstance(a, list):
        if len(a) != len(b):
            return "%s: length %d vs %d" % (path or "/", len(a), len(b))
        for i, (x, y) in enumerate(zip(a, b)):
            r = _fd(x, y, "%s/%d" % (path, i))
            if r:
                return r
        return None
    if a != b:
        return "%s: %.80r vs %.80r" % (path or "/", a, b)
    return None
