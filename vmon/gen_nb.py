"""G-NB: seeded generator of schema-valid nbformat v4.0-4.5 notebooks as raw dicts.

Never uses nbformat.v4.new_* (they add ids / validate).  Notebooks are produced
in the in-memory normal form every nbdime entry point works on (what
nbformat.reads returns: multi-line strings joined); `disk_form` re-splits strings
into lists of lines for file-interface workloads.  `validate_nb` is the pure
jsonschema oracle against nbformat's own per-minor schema file.
"""
import base64
import copy
import json
import os
import random

_SCHEMA_CACHE = {}

EXOTIC_SEPS = ["\x0b", "\x0c", "\x1c", "\x1d", "\x1e", "\x85", " ", " "]

CODE_LINES = [
    "import numpy as np", "import pandas as pd", "import matplotlib.pyplot as plt",
    "x = {n}", "y = x + {n}", "z = [i for i in range({n})]", "def f{n}(a, b):",
    "    return a + b * {n}", "print(x, y)", "# comment number {n}", "for i in range({n}):",
    "    total += i", "plt.plot(x, y)", "df = pd.read_csv('data_{n}.csv')", "df.head({n})",
    "class Model{n}(object):", "    def __init__(self):", "        self.value = {n}",
    "result = model.fit(X, y, epochs={n})", "assert result is not None", "%matplotlib inline",
    "!pip install package{n}", "alpha = 'αβγ {n}'", "emoji = '\U0001F600 {n}'",
    "s = \"a string with spaces {n}\"", "if x > {n}:", "    pass", "else:", "    x -= 1",
    "data = {{'k': {n}, 'l': [1, 2, 3]}}", "lambda q: q ** {n}", "return_value = None",
    "", "   ", "\t", "x", "y", "1", "a=1",
]
MD_LINES = [
    "# Title {n}", "## Section {n}", "Some *markdown* text number {n}.", "- item {n}", "- another item",
    "1. first", "2. second {n}", "> quote {n}", "A longer paragraph of explanatory prose, number {n}, that goes on.",
    "![img](attachment:a.png)", "$$ e^{{i\\pi}} + {n} = 0 $$", "`code {n}`", "", "***", "| a | b |", "|---|---|",
    "Text with unicode éè 中文 {n}", "--- old.txt", "+++ new.txt", "@@ -1,{n} +1,2 @@",
    "\\ No newline at end of file", "-removed looking line", "+added looking line",
]
OUT_LINES = [
    "result: {n}", "Epoch {n}/10 loss=0.{n}", "<matplotlib.figure.Figure at 0x7f{n:06x}a0>",
    "<Foo object at 0x10{n:06x}b8>", "{n}", "[1, 2, {n}]", "array([{n}, 2, 3])", "True", "None",
    "Warning: something {n} happened", "   col_a  col_b", "0      {n}      2", "done.", "",
]


def schema_for(minor):
    if minor not in _SCHEMA_CACHE:
        import nbformat
        import jsonschema
        p = os.path.join(os.path.dirname(nbformat.__file__), "v4", "nbformat.v4.%d.schema.json" % minor)
        with open(p) as f:
            schema = json.load(f)
        _SCHEMA_CACHE[minor] = jsonschema.Draft4Validator(schema)
    return _SCHEMA_CACHE[minor]


def validate_nb(nb, check_ids=True):
    """Return list of jsonschema errors of `nb` against the schema of the version it
    declares (pure jsonschema on a JSON round-tripped copy; nbformat.validate is not
    used because it mutates and relaxes)."""
    try:
        plain = json.loads(json.dumps(nb))
    except (TypeError, ValueError) as e:
        return [_Err("not-json", str(e))]
    if plain.get("nbformat") != 4:
        return [_Err("nbformat", "nbformat != 4: %r" % (plain.get("nbformat"),))]
    minor = plain.get("nbformat_minor")
    if not isinstance(minor, int) or isinstance(minor, bool) or not (0 <= minor <= 5):
        return [_Err("nbformat_minor", "unsupported minor %r" % (minor,))]
    errs = list(schema_for(minor).iter_errors(plain))
    # ids must be unique (nbformat checks this outside the schema)
    ids = [c.get("id") for c in plain.get("cells", []) if isinstance(c, dict) and "id" in c]
    if check_ids and len(ids) != len(set(map(json.dumps, ids))):
        errs.append(_Err("duplicate-id", "duplicate cell ids"))
    return errs


class _Err:
    def __init__(self, validator, message):
        self.validator = validator
        self.message = message
        self.absolute_path = ()
        self.absolute_schema_path = ()
        self.context = ()
        self.instance = None


def _star(path):
    return "/" + "/".join("*" if isinstance(p, int) else str(p) for p in path)


def leaf_errors(err):
    """For oneOf failures descend into the branch selected by cell_type / output_type
    (the branch without an enum error on that discriminator); return leaf errors."""
    ctx = list(getattr(err, "context", None) or ())
    if err.validator != "oneOf" or not ctx:
        return [err]
    branches = {}
    for e in ctx:
        branches.setdefault(e.relative_schema_path[0], []).append(e)
    good = []
    for idx, errs in branches.items():
        wrong = any(e.validator == "enum" and list(e.relative_path)[-1:] in (["cell_type"], ["output_type"]) for e in errs)
        if not wrong:
            good.extend(errs)
    if not good:
        return [err]
    out = []
    for e in good:
        out.extend(leaf_errors(e))
    return out


def error_key(err, doc=None):
    """Mechanism key for a schema error: starred instance path, validator keyword, tail of
    the schema path of the leaf error in the matching oneOf branch, plus the offending
    property name for additionalProperties / required.  The message text is never used."""
    leaves = leaf_errors(err)
    keys = []
    for e in leaves[:3]:
        extra = ""
        if e.validator == "additionalProperties" and isinstance(e.instance, dict):
            allowed = set((e.schema.get("properties") or {}).keys())
            extra = ":" + ",".join(sorted(k for k in e.instance if k not in allowed))
        elif e.validator == "required" and isinstance(e.instance, dict):
            extra = ":" + ",".join(sorted(k for k in e.validator_value if k not in e.instance))
        elif e.validator == "type":
            extra = ":want=%s,got=%s" % (e.validator_value, type(e.instance).__name__)
        keys.append("%s:%s%s" % (_star(e.absolute_path), e.validator, extra))
    return "|".join(sorted(set(keys)))


def b64(rng, nbytes):
    return base64.b64encode(bytes(rng.randrange(256) for _ in range(nbytes))).decode()


class NBGen:
    def __init__(self, rng, exotic=False, hostile=True, crlf=True, json_scalars=True):
        self.rng = rng
        self.exotic = exotic      # embed VT/FF/FS/GS/RS/NEL/LS/PS in text
        self.hostile = hostile    # list-of-lists vs list-of-objects metadata, type zoo
        self.crlf = crlf          # allow \r\n and lone \r line endings
        self.json_scalars = json_scalars  # application/json scalar values
        self._ids = set()

    # ---- text ------------------------------------------------------------
    def line(self, pool):
        r = self.rng
        t = r.choice(pool).format(n=r.randrange(1000))
        if self.exotic and r.random() < 0.25:
            k = r.randrange(len(t) + 1)
            t = t[:k] + r.choice(EXOTIC_SEPS) + t[k:]
        return t

    def text(self, pool, maxlines=8, allow_empty=True):
        r = self.rng
        if allow_empty and r.random() < 0.06:
            return ""
        n = r.choice([1, 1, 2, 3, 3, 4, 5, maxlines])
        lines = [self.line(pool) for _ in range(n)]
        mode = r.random()
        if not self.crlf or mode < 0.8:
            seps = ["\n"] * n
        elif mode < 0.88:
            seps = ["\r\n"] * n
        elif mode < 0.93:
            seps = ["\r"] * n
        else:
            seps = [r.choice(["\n", "\r\n", "\r"]) for _ in range(n)]
        if r.random() < 0.6:
            seps[-1] = ""
        return "".join(l + s for l, s in zip(lines, seps))

    def short(self):
        return self.rng.choice(["x", "1", "a=1", "ok", "42", "y\n", "", "None"])

    # ---- values ------------------------------------------------------------
    def scalar(self):
        r = self.rng
        return r.choice([True, False, 1, 0, 1.0, 0.0, 2, 2.5, -1, None, "a", "", "text %d" % r.randrange(5),
                         "multi\nline\n", 10 ** 6, 1e-3])

    def value(self, depth=0):
        r = self.rng
        c = r.random()
        if depth >= 3 or c < 0.45:
            return self.scalar()
        if c < 0.7:
            # (member names include ones that other languages' objects inherit: constructor, toString, valueOf, ...)
            return {k: self.value(depth + 1) for k in r.sample(["a", "b", "c", "k", "list", "obj", "2024", "0", "k 1", "constructor", "toString", "valueOf", "hasOwnProperty"], r.randrange(0, 4))}
        if c < 0.8:   # list of lists
            return [[self.scalar() for _ in range(r.randrange(0, 3))] for _ in range(r.randrange(0, 3))]
        if c < 0.9:   # list of objects
            return [{"k": self.scalar()} for _ in range(r.randrange(0, 3))]
        return [self.value(depth + 1) for _ in range(r.randrange(0, 4))]   # heterogeneous

    def tags(self):
        r = self.rng
        return r.sample(["hide", "skip", "slide", "t1", "t2", "remove-input"], r.randrange(0, 4))

    def metadata(self, kind):
        r = self.rng
        md = {}
        if r.random() < 0.5:
            return md
        if r.random() < 0.4:
            md["tags"] = self.tags()
        if kind == "code":
            if r.random() < 0.3:
                md["collapsed"] = r.random() < 0.5
            if r.random() < 0.2:
                md["scrolled"] = r.choice([True, False, "auto"])
        if kind == "raw" and r.random() < 0.3:
            md["format"] = r.choice(["text/html", "text/latex"])
        if r.random() < 0.2:
            md["name"] = "cell-%d" % r.randrange(100)
        if self.hostile:
            for key in r.sample(["x", "y", "extra", "nested"], r.randrange(0, 3)):
                md[key] = self.value()
        elif r.random() < 0.4:
            md["extra"] = {"a": r.randrange(5), "b": ["p", "q"][: r.randrange(3)]}
        return md

    def nb_metadata(self):
        r = self.rng
        md = {}
        if r.random() < 0.7:
            md["kernelspec"] = {"name": "python3", "display_name": "Python 3", "language": "python"}
        if r.random() < 0.6:
            md["language_info"] = {"name": r.choice(["python", "python", "julia", "R"]), "version": "3.%d" % r.randrange(6, 12)}
            if r.random() < 0.5:
                md["language_info"]["codemirror_mode"] = r.choice(["ipython", {"name": "ipython", "version": 3}])
        if self.hostile:
            for key in r.sample(["x", "y", "z", "widgets", "2024", "1"], r.randrange(0, 3)):
                md[key] = self.value()
        elif r.random() < 0.3:
            md["title"] = "notebook %d" % r.randrange(10)
        return md

    # ---- outputs -----------------------------------------------------------
    def mimebundle(self, for_attachment=False):
        r = self.rng
        d = {}
        if for_attachment:
            keys = r.sample(["image/png", "image/jpeg", "image/svg+xml", "text/plain", "application/json", "application/vnd.custom+json"], r.randrange(1, 3))
        else:
            keys = ["text/plain"] if r.random() < 0.85 else []
            keys += r.sample(["text/html", "image/png", "image/svg+xml", "application/json",
                              "application/javascript", "text/latex", "application/vnd.custom+json",
                              "text/markdown"], r.choice([0, 0, 1, 1, 2, 3]))
            if r.random() < 0.08:
                # MIME types are case-insensitive and nbformat does not restrict their spelling
                keys += r.sample(["image/PNG", "text/Markdown", "Text/X-Custom"], 1)
        for k in keys:
            if k == "text/plain":
                d[k] = self.text(OUT_LINES, 4) if r.random() < 0.7 else self.line(OUT_LINES)
            elif k in ("image/png", "image/jpeg", "image/PNG"):
                d[k] = b64(r, r.choice([6, 12, 30, 60, 90, 200]))
                if r.random() < 0.2:
                    d[k] += "\n"
            elif k == "image/svg+xml":
                d[k] = "<svg width=\"%d\">\n<circle r=\"%d\"/>\n</svg>" % (r.randrange(100), r.randrange(10))
            elif k in ("application/json", "application/vnd.custom+json"):
                c = r.random()
                if c < 0.12 and self.json_scalars:
                    # a JSON mime type whose value is a (multi-line) STRING: loader scripts of plotting libraries
                    d[k] = self.text(OUT_LINES, 5)
                elif c < 0.35:
                    d[k] = {"k": self.scalar(), "l": [self.scalar() for _ in range(r.randrange(3))]}
                elif c < 0.55:
                    d[k] = [[self.scalar() for _ in range(r.randrange(3))] for _ in range(r.randrange(3))]
                elif c < 0.75:
                    d[k] = [{"k": self.scalar()} for _ in range(r.randrange(3))]
                elif c < 0.85 or not self.json_scalars:
                    d[k] = [self.value(2) for _ in range(r.randrange(4))]
                else:
                    d[k] = self.scalar()
            elif k == "text/html":
                d[k] = "<div>\n<p>%s</p>\n</div>" % self.line(OUT_LINES)
            else:
                d[k] = self.text(OUT_LINES, 3)
        return d

    def output(self, kind=None, ec=None):
        r = self.rng
        kind = kind or r.choice(["stream", "stream", "execute_result", "display_data", "error"])
        if kind == "stream":
            return {"output_type": "stream", "name": r.choice(["stdout", "stdout", "stderr"]),
                    "text": self.text(OUT_LINES, 6, allow_empty=False) or "out\n"}
        if kind == "error":
            return {"output_type": "error", "ename": r.choice(["ValueError", "KeyError", "ZeroDivisionError"]),
                    "evalue": r.choice(["bad value %d" % r.randrange(9), "'k'", "division by zero"]),
                    "traceback": [self.line(OUT_LINES) + r.choice(["", "\n"]) for _ in range(r.randrange(0, 4))]}
        o = {"output_type": kind, "data": self.mimebundle(),
             "metadata": ({} if r.random() < 0.6 else {"needs_background": r.choice(["light", "dark"]),
                                                        "isolated": r.random() < 0.5})}
        if kind == "execute_result":
            o["execution_count"] = ec if (ec is not None and r.random() < 0.8) else r.choice([None, r.randrange(50)])
        return o

    # ---- cells -------------------------------------------------------------
    def new_id(self):
        r = self.rng
        while True:
            c = r.random()
            if c < 0.7:
                i = "%08x" % r.getrandbits(32)                      # nbformat's helper
            elif c < 0.8:
                i = "%08x-%04x-%04x-%04x-%012x" % (r.getrandbits(32), r.getrandbits(16), r.getrandbits(16), r.getrandbits(16), r.getrandbits(48))   # JupyterLab uuid
            elif c < 0.87:
                i = "%064x" % r.getrandbits(256)                    # the schema's maximum length (content hash)
            elif c < 0.9:
                i = r.choice("abcXYZ019_-") + r.choice(["", "q"])   # its minimum
            else:
                i = r.choice(["cell-", "a_b-", "X"]) + str(r.randrange(10 ** 4))
            if i not in self._ids:
                self._ids.add(i)
                return i

    def cell(self, minor, kind=None):
        r = self.rng
        kind = kind or r.choice(["code", "code", "code", "markdown", "markdown", "raw"])
        c = {"cell_type": kind, "metadata": self.metadata(kind)}
        if kind == "code":
            c["source"] = self.text(CODE_LINES) if r.random() < 0.85 else self.short()
            ec = r.choice([None, r.randrange(1, 60)])
            c["execution_count"] = ec
            c["outputs"] = [self.output(ec=ec) for _ in range(r.choice([0, 0, 1, 1, 2, 3]))]
        else:
            c["source"] = self.text(MD_LINES if kind == "markdown" else OUT_LINES) if r.random() < 0.85 else self.short()
            if r.random() < 0.2:
                c["attachments"] = {n: self.mimebundle(True) for n in r.sample(["a.png", "b.png", "fig 1.svg"], r.randrange(0, 3))}
        if minor >= 5:
            c["id"] = self.new_id()
        return c

    def notebook(self, minor=None, ncells=None):
        r = self.rng
        if minor is None:
            minor = r.choice([0, 1, 2, 3, 4, 4, 5, 5, 5])
        if ncells is None:
            ncells = r.choice([0, 1, 2, 3, 4, 5, 6, 8])
        return {"nbformat": 4, "nbformat_minor": minor, "metadata": self.nb_metadata(),
                "cells": [self.cell(minor) for _ in range(ncells)]}


def _split(s, rng):
    if isinstance(s, str) and rng.random() < 0.6:
        return s.splitlines(True)
    return s


def disk_form(nb, rng):
    """On-disk variant of an in-memory notebook: multi-line strings optionally as lists
    of lines, exactly where nbformat's split_lines/rejoin_lines convert them."""
    nb = copy.deepcopy(nb)
    for c in nb["cells"]:
        c["source"] = _split(c["source"], rng)
        for name, bundle in (c.get("attachments") or {}).items():
            for k in bundle:
                if not _is_json_mime(k):
                    bundle[k] = _split(bundle[k], rng)
        for o in c.get("outputs", []):
            if o["output_type"] == "stream":
                o["text"] = _split(o["text"], rng)
            elif "data" in o:
                for k in o["data"]:
                    if not _is_json_mime(k):
                        o["data"][k] = _split(o["data"][k], rng)
    return nb


def _is_json_mime(m):
    return m == "application/json" or (m.startswith("application/") and m.endswith("+json"))


def to_node(nb):
    """The object every nbdime entry point receives (NotebookNode tree, no validation)."""
    import nbformat
    return nbformat.from_dict(copy.deepcopy(nb))


def to_node_shared(nb):
    """The same document as to_node(nb), represented with SHARED sub-objects: every non-empty dict / list that occurs
    several times (the same warning output in two cells, the same metadata block) is one Python object referenced from
    all its places - what a program gets that builds a notebook re-using an output or a cell object."""
    from .canon import canon
    node = to_node(nb)
    memo = {}

    def share(x):
        if isinstance(x, dict):
            for k in list(x):
                x[k] = share(x[k])
        elif isinstance(x, list):
            for i in range(len(x)):
                x[i] = share(x[i])
        else:
            return x
        if not x:
            return x
        return memo.setdefault(canon(x), x)
    return share(node)


def fixture_notebooks(repo):
    """The repository's test notebooks as plain dicts in normal form (seed corpus)."""
    import nbformat
    import warnings
    import logging
    d = os.path.join(repo, "nbdime", "tests", "files")
    out = []
    logging.getLogger("nbformat").setLevel(logging.CRITICAL)
    for fn in sorted(os.listdir(d)):
        if not fn.endswith(".ipynb"):
            continue
        try:
            with warnings.catch_warnings():
                warnings.simplefilter("ignore")
                with open(os.path.join(d, fn), encoding="utf8") as f:
                    raw = json.load(f)
                if raw.get("nbformat") != 4:
                    continue
                nb = nbformat.reads(json.dumps(raw), as_version=4)
            plain = json.loads(json.dumps(nb))
            if not validate_nb(plain):
                out.append((fn, plain))
        except Exception:
            continue
    return out


def self_check(nb, rng):
    """reads(dumps(disk_form(nb))) must equal nb: the generator's normal form is what
    nbformat hands to nbdime, and nbformat repaired nothing."""
    import nbformat
    import warnings
    with warnings.catch_warnings():
        warnings.simplefilter("ignore")
        back = nbformat.reads(json.dumps(disk_form(nb, rng)), as_version=4)
    from .canon import canon
    return canon(back) == canon(nb)
