"""Reference decision applier (C09/C10/C15), written from docs/source/merging.rst and
merge_format.schema.json: a decision names a `common_path` into the base document, an
`action`, and local/remote/custom diffs relative to the sub-document at that path.

Application is sequential in list order, path group by path group; every path is
resolved in the CURRENT document (so the published ordering rule - deeper paths and
higher indices first - is exactly what makes this well-defined).  A path or index that
does not resolve, or an op that does not apply, raises RefApplyError: that is the
operational form of the ordering clause of C09.  Never imports nbdime.
"""
import copy

ACTIONS_DOCUMENTED = {"local", "remote", "base", "either", "local_then_remote", "remote_then_local",
                      "clear", "custom"}
ACTIONS_SCHEMA = {"local", "remote", "base", "clear", "clear_all", "remove", "either",
                  "local_then_remote", "remote_then_local", "custom"}


class RefApplyError(Exception):
    pass


def split_path(doc, path):
    """(container_path, line_keys): the path is cut where it enters a string."""
    cur = doc
    for i, key in enumerate(path):
        if isinstance(cur, str):
            return list(path[:i]), list(path[i:])
        try:
            cur = cur[key]
        except (KeyError, IndexError, TypeError):
            raise RefApplyError("common_path %r does not resolve at element %d (%r)" % (list(path), i, key))
    return list(path), []


def resolve(doc, path):
    cur = doc
    for key in path:
        cur = cur[key]
    return cur


def cleared(v):
    if isinstance(v, list):
        return []
    if isinstance(v, dict):
        return {}
    if isinstance(v, str):
        return ""
    return None


def _single_key(dec):
    keys = {e["key"] for e in (dec.get("local_diff") or []) + (dec.get("remote_diff") or [])}
    if len(keys) != 1:
        raise RefApplyError("action %s needs exactly one key, got %r" % (dec["action"], sorted(map(str, keys))))
    return keys.pop()


def action_diff(sub, dec):
    a = dec["action"]
    ld = dec.get("local_diff") or []
    rd = dec.get("remote_diff") or []
    if a == "base":
        return []
    if a in ("local", "either"):
        return list(ld)
    if a == "remote":
        return list(rd)
    if a == "custom":
        return list(dec.get("custom_diff") or [])
    if a == "local_then_remote":
        return list(ld) + list(rd)
    if a == "remote_then_local":
        return list(rd) + list(ld)
    if a == "clear":
        k = _single_key(dec)
        if isinstance(sub, dict) and k not in sub:
            # both sides ADDED the member (with different values): the cleared value of what they added is added
            added = [e for e in list(ld) + list(rd) if e.get("op") == "add"]
            if not added:
                raise RefApplyError("action clear at %r on a member base does not have and no side adds" % (dec.get("common_path"),))
            return [{"op": "add", "key": k, "value": cleared(added[0]["value"])}]
        return [{"op": "replace", "key": k, "value": cleared(sub[k])}]
    if a == "remove":
        k = _single_key(dec)
        if isinstance(sub, (list, str)):
            return [{"op": "removerange", "key": k, "length": 1}]
        return [{"op": "remove", "key": k}]
    if a == "clear_all":
        if isinstance(sub, dict):
            return [{"op": "remove", "key": k} for k in sub]
        return [{"op": "removerange", "key": 0, "length": len(sub)}] if len(sub) else []
    if a == "take_max":
        k = _single_key(dec)
        b = sub[k]
        lv = ld[0]["value"] if ld else b
        rv = rd[0]["value"] if rd else b
        m = max(b, lv, rv)
        return [] if m == b else [{"op": "replace", "key": k, "value": m}]
    raise RefApplyError("unknown action %r" % (a,))


# ---- lenient patcher for combined decision diffs ------------------------------
# Several decisions on one list may each carry an addrange at the same index (kept in
# list order), and an insertion may follow the consumer of the same index.  Everything
# else (bounds, unknown ops, patch of consumed item) is still an error.
def lpatch(doc, diff, chars=False):
    if isinstance(doc, dict):
        return _lpatch_dict(doc, diff)
    if isinstance(doc, list):
        return _lpatch_seq(doc, diff, "list")
    if isinstance(doc, str):
        if chars:
            return "".join(_lpatch_seq(list(doc), diff, "chars"))
        return "".join(_lpatch_seq(doc.splitlines(True), diff, "lines"))
    raise RefApplyError("patch of scalar %r" % (doc,))


def _lpatch_dict(doc, diff):
    new, removed, seen = {}, set(), set()
    for e in diff:
        op, k = e["op"], e["key"]
        if not isinstance(k, str):
            raise RefApplyError("dict op with non-string key %r" % (k,))
        if k in seen:
            raise RefApplyError("key %r targeted twice" % k)
        seen.add(k)
        if op == "add":
            if k in doc:
                raise RefApplyError("add of present key %r" % k)
            new[k] = e["value"]
        elif op == "remove":
            if k not in doc:
                raise RefApplyError("remove of absent key %r" % k)
            removed.add(k)
        elif op == "replace":
            if k not in doc:
                raise RefApplyError("replace of absent key %r" % k)
            new[k] = e["value"]
        elif op == "patch":
            if k not in doc:
                raise RefApplyError("patch of absent key %r" % k)
            new[k] = lpatch(doc[k], e["diff"])
        else:
            raise RefApplyError("op %r on dict" % op)
    out = {}
    for k, v in doc.items():
        if k in removed:
            continue
        out[k] = new.pop(k) if k in new else v
    out.update(new)
    return out


def _lpatch_seq(items, diff, kind):
    n = len(items)
    out, pos = [], 0
    for e in diff:
        op, k = e["op"], e["key"]
        if not isinstance(k, int) or isinstance(k, bool):
            raise RefApplyError("sequence op with key %r" % (k,))
        if k < 0 or k > n:
            raise RefApplyError("index %d out of bounds (len %d)" % (k, n))
        if k > pos:
            out.extend(items[pos:k])
            pos = k
        if op == "addrange":
            vl = e["valuelist"]
            out.extend(list(vl) if kind != "chars" else list("".join(vl)))
        elif op == "removerange":
            if k + e["length"] > n or e["length"] < 0:   # zero length is C11's business, a no-op here
                raise RefApplyError("removerange [%d,%d) out of bounds (len %d)" % (k, k + e["length"], n))
            pos = max(pos, k + e["length"])
        elif op == "patch":
            if k >= n:
                raise RefApplyError("patch index %d out of bounds" % k)
            if k < pos:
                raise RefApplyError("patch of already consumed index %d" % k)
            if kind == "chars":
                raise RefApplyError("patch of a character")
            out.append(lpatch(items[k], e["diff"], chars=(kind == "lines")))
            pos = k + 1
        elif op == "replace" and kind == "list":
            # produced only by the 'clear' action on a list item
            if k >= n or k < pos:
                raise RefApplyError("replace index %d" % k)
            out.append(e["value"])
            pos = k + 1
        else:
            raise RefApplyError("op %r on %s" % (op, kind))
    out.extend(items[pos:])
    return out


def combine(diffs):
    """canonical form: one patch per key (sub-diffs concatenated and combined), stable sort by key"""
    patches, out = {}, []
    for d in diffs:
        if d["op"] == "patch":
            p = patches.get(_hk(d["key"]))
            if p is None:
                p = {"op": "patch", "key": d["key"], "diff": combine(d["diff"])}
                patches[_hk(d["key"])] = p
                out.append(p)
            else:
                p["diff"] = combine(p["diff"] + d["diff"])
        else:
            out.append(d)
    # documented meaning of addrange: "insert before A[key]" - so at equal keys insertions go
    # first, whatever the order in which the decisions listed them (stable otherwise)
    return sorted(out, key=lambda e: (isinstance(e["key"], str), e["key"], 0 if e["op"] == "addrange" else 1))


def _hk(k):
    return (type(k).__name__, k)


def refapply(base, decisions):
    """base, decisions: plain JSON.  Returns the merged document."""
    doc = copy.deepcopy(base)
    i = 0
    n = len(decisions)
    while i < n:
        cpath, _ = split_path(doc, decisions[i]["common_path"])
        group = []
        while i < n:
            p, line = split_path(doc, decisions[i]["common_path"])
            if p != cpath:
                break
            group.append((decisions[i], line))
            i += 1
        try:
            sub = resolve(doc, cpath)
        except (KeyError, IndexError, TypeError) as e:
            raise RefApplyError("path %r does not resolve: %r" % (cpath, e))
        diffs = []
        if any(d["action"] == "clear_all" for d, _ in group):
            group = [(d, l) for d, l in group if d["action"] == "clear_all"][:1]
        for dec, line in group:
            try:
                ad = action_diff(sub, dec)
            except (KeyError, IndexError, TypeError) as e:
                raise RefApplyError("action %s at %r: %r" % (dec["action"], cpath, e))
            for key in reversed(line):
                ad = [{"op": "patch", "key": key, "diff": ad}] if ad else []
            diffs.extend(copy.deepcopy(ad))
        new = lpatch(sub, combine(diffs))
        if not cpath:
            doc = new
        else:
            resolve(doc, cpath[:-1])[cpath[-1]] = new
    return doc


def choose_side(decisions, side):
    """'resolve every decision to `side`': action := side where that side's diff is
    non-empty, else base (an absent diff means that side did nothing there)."""
    out = []
    for d in decisions:
        d = dict(d)
        if side == "base":
            d["action"] = "base"
        else:
            d["action"] = side if d.get(side + "_diff") else "base"
        d["conflict"] = False
        out.append(d)
    return out


def ordering_problems(decisions):
    """indices i<j with common_path[i] a proper prefix of common_path[j]: a decision on an
    enclosing path before one inside it."""
    bad = []
    paths = [list(d["common_path"]) for d in decisions]
    for j, pj in enumerate(paths):
        for i in range(j):
            pi = paths[i]
            if len(pi) < len(pj) and pj[:len(pi)] == pi:
                bad.append((i, j))
                break
    return bad
