"""./check <Cxx> [--tier quick|thorough] [--replay FILE]

Shards the property's workload over worker subprocesses, aggregates what the
monitors observed, matches violations against known_findings.json by mechanism,
writes evidence/<id>.json, prints VIOLATION / KNOWN-FINDING / INCONCLUSIVE lines.
Exit 0 held, 1 violated, 2 inconclusive.
"""
import argparse
import concurrent.futures
import importlib
import json
import os
import shutil
import subprocess
import sys
import time

from . import env


def ensure_deps():
    marker = os.path.join(env.DEPS, "icontract")
    if os.path.isdir(marker):
        return
    os.makedirs(env.DEPS, exist_ok=True)
    subprocess.run([env.PY, "-m", "pip", "install", "-q", "--no-index", "--find-links", "/opt/veriftools/wheels",
                    "--target", env.DEPS, "icontract"], stdout=subprocess.DEVNULL, stderr=subprocess.DEVNULL)


def load_known():
    p = os.path.join(env.VERIF, "known_findings.json")
    if not os.path.exists(p):
        return {}
    with open(p) as f:
        data = json.load(f)
    return {(e["property"], e["mechanism"]): e for e in data.get("open", [])}


def run_shards(mod, modname, specs, scratch):
    results = [None] * len(specs)
    with_stubs = getattr(mod, "NEEDS_STUBS", False)

    def one(i):
        spec = specs[i]
        sf = os.path.join(scratch, "spec-%d.json" % i)
        of = os.path.join(scratch, "out-%d.json" % i)
        with open(sf, "w") as f:
            json.dump(spec, f)
        timeout = spec.get("timeout", 1500)
        e = env.worker_env(with_stubs=with_stubs, extra={"VMON_SCRATCH": scratch, "JUPYTER_CONFIG_DIR": os.path.join(scratch, "jupcfg"), "HOME": os.path.join(scratch, "home")})
        try:
            # spec["python_flags"]: interpreter options for this shard, e.g. ["-O"] (assert statements compiled away)
            p = subprocess.run([env.PY] + list(spec.get("python_flags", [])) + ["-m", "vmon.worker", modname, sf, of], env=e, cwd=scratch,
                               stdout=subprocess.PIPE, stderr=subprocess.PIPE, timeout=timeout)
        except subprocess.TimeoutExpired:
            return {"inconclusive": ["shard %d watchdog (%ds) expired" % (i, timeout)]}
        if not os.path.exists(of):
            return {"inconclusive": ["shard %d died rc=%s: %s" % (i, p.returncode, p.stderr.decode(errors="replace")[-800:])]}
        with open(of) as f:
            return json.load(f)

    with concurrent.futures.ThreadPoolExecutor(max_workers=env.NCPU) as ex:
        for i, r in zip(range(len(specs)), ex.map(one, range(len(specs)))):
            results[i] = r
    return results


def aggregate(results):
    agg = {"evaluations": 0, "nt_enum": 0, "nontrivial": set(), "counters": {}, "monitors": {}, "samples": [],
           "violations": [], "violation_counts": {}, "inconclusive": []}
    for r in results:
        agg["evaluations"] += r.get("evaluations", 0)
        agg["nontrivial"].update(r.get("nontrivial", []))
        agg["nt_enum"] += r.get("nt_by_construction", 0)
        for k, v in r.get("counters", {}).items():
            agg["counters"][k] = agg["counters"].get(k, 0) + v
        for k, v in r.get("monitors", {}).items():
            agg["monitors"][k] = agg["monitors"].get(k, 0) + v
        for k, v in r.get("violation_counts", {}).items():
            agg["violation_counts"][k] = agg["violation_counts"].get(k, 0) + v
        if len(agg["samples"]) < 5:
            agg["samples"].extend(r.get("samples", [])[: 5 - len(agg["samples"])])
        agg["violations"].extend(r.get("violations", []))
        agg["inconclusive"].extend(r.get("inconclusive", []))
    return agg


def main(argv=None):
    ap = argparse.ArgumentParser()
    ap.add_argument("prop")
    ap.add_argument("--tier", default=os.environ.get("VERIF_TIER", "quick"), choices=["quick", "thorough"])
    ap.add_argument("--replay")
    args = ap.parse_args(argv)
    pid = args.prop.upper()
    modname = pid.lower()
    seed = int(os.environ.get("VERIF_SEED", "0") or 0)
    ensure_deps()
    sys.path.insert(0, env.VERIF)
    mod = importlib.import_module("vmon.props." + modname)
    t0 = time.time()
    scratch = env.scratch("vmon-%s-" % modname)
    os.makedirs(os.path.join(scratch, "jupcfg")); os.makedirs(os.path.join(scratch, "home"))
    try:
        if args.replay:
            with open(args.replay) as f:
                case = json.load(f)
            specs = [{"replay": case, "seed": seed, "tier": args.tier}]
        else:
            specs = mod.plan(args.tier, seed)
            # OPTIMIZED_SHARDS: copies of these shards (own seed) run under `python -O` - assert statements compiled
            # away, as PYTHONOPTIMIZE=1 deployments run; nbdime leans on assert for its sanity checks
            specs += [dict(specs[i], python_flags=["-O"]) for i in getattr(mod, "OPTIMIZED_SHARDS", ())]
            for i, s in enumerate(specs):
                s.setdefault("shard", i)
                s.setdefault("tier", args.tier)
                s.setdefault("seed", seed * 1000003 + i)
        results = run_shards(mod, modname, specs, scratch)
    finally:
        shutil.rmtree(scratch, ignore_errors=True)
    agg = aggregate(results)
    known = load_known()

    # ---- verdict ------------------------------------------------------------
    unlisted = []
    known_seen = {}
    for v in agg["violations"]:
        key = (pid, v["mechanism"])
        if key in known:
            known_seen.setdefault(v["mechanism"], v)
        else:
            unlisted.append(v)
    # violation_counts may name mechanisms whose records were capped per shard: all carry >=1 record
    rdir = os.path.join(env.OUT, "replays", pid)
    lines = []
    if os.path.isdir(rdir) and not args.replay:
        # witnesses of an earlier run with the same tier and seed would be mistaken for this run's
        for fn in os.listdir(rdir):
            if fn.startswith("%s-%s-" % (args.tier, seed)):
                os.remove(os.path.join(rdir, fn))
    if unlisted:
        os.makedirs(rdir, exist_ok=True)
    seen_mech = {}
    for v in unlisted:
        n = seen_mech.get(v["mechanism"], 0)
        seen_mech[v["mechanism"]] = n + 1
        if n >= 3:
            continue
        path = os.path.join(rdir, "%s-%d-%s-%d.json" % (args.tier, seed, _slug(v["mechanism"]), n))
        with open(path, "w") as f:
            json.dump(v, f, indent=1, default=repr)
        lines.append("VIOLATION property=%s replay=%s" % (pid, path))
        print("  mechanism=%s clause=%s detail=%s" % (v["mechanism"], v.get("clause"), v["detail"][:300]))
    for mech, v in sorted(known_seen.items()):
        print("KNOWN-FINDING: property=%s %s: %s (observed %d times this run)" % (
            pid, mech, v["detail"][:200].replace("\n", " "), agg["violation_counts"].get(mech, 1)))

    distinct = len(agg["nontrivial"]) + agg["nt_enum"]
    floor = mod.FLOOR[args.tier] if isinstance(getattr(mod, "FLOOR", 0), dict) else getattr(mod, "FLOOR", 2)
    inconclusive = list(agg["inconclusive"])
    if not args.replay:
        if distinct < max(2, floor):
            inconclusive.append("only %d distinct non-trivial cases (floor %d)" % (distinct, floor))
        for m in getattr(mod, "REQUIRED_MONITORS", ()):
            if agg["monitors"].get(m, 0) == 0:
                inconclusive.append("deciding monitor %s never evaluated" % m)

    wall = time.time() - t0
    if not args.replay:
        coverage = {
            "evaluations": agg["evaluations"],
            "distinct_nontrivial": distinct,
            "distinct_by_hash": len(agg["nontrivial"]),
            "distinct_by_enumeration": agg["nt_enum"],
            "rule": mod.RULE,
            "samples": agg["samples"] or [{"note": "no sample recorded"}],
            "monitor_evaluations": agg["monitors"],
            "observed": dict(sorted(agg["counters"].items())),
            "known_findings_seen": sorted(known_seen),
            "unlisted_violation_mechanisms": sorted(seen_mech),
            "inconclusive_reasons": inconclusive[:10],
            "shards": len(specs),
            "exhaustive": bool(getattr(mod, "EXHAUSTIVE", {}).get(args.tier, False)) if isinstance(getattr(mod, "EXHAUSTIVE", None), dict) else False,
        }
        if hasattr(mod, "extra_coverage"):
            coverage.update(mod.extra_coverage(agg, args.tier))
        ev = {"property_id": pid, "tier": args.tier, "seed": seed, "level": mod.LEVEL, "coverage": coverage,
              "assumptions": list(getattr(mod, "ASSUMPTIONS", [])), "wall_s": round(wall, 2),
              "violations": len(unlisted)}
        os.makedirs(env.EVIDENCE, exist_ok=True)
        with open(os.path.join(env.EVIDENCE, pid + ".json"), "w") as f:
            json.dump(ev, f, indent=1, sort_keys=True, default=repr)
            f.write("\n")

    for l in lines:
        print(l)
    print("%s tier=%s seed=%d evaluations=%d distinct_nontrivial=%d monitors=%s wall=%.1fs" % (
        pid, args.tier, seed, agg["evaluations"], distinct, agg["monitors"], wall))
    if unlisted:
        return 1
    if inconclusive:
        for r in inconclusive[:10]:
            print("INCONCLUSIVE property=%s reason=%s" % (pid, str(r).replace("\n", " | ")[:700]))
        return 2
    print("HELD property=%s (on what was observed)" % pid)
    return 0


def _slug(s):
    return "".join(c if c.isalnum() else "_" for c in s)[:60]


if __name__ == "__main__":
    sys.exit(main())
