"""Locations, interpreter, environment for workers.  Nothing here imports nbdime."""
import os
import shutil
import sys
import tempfile

VERIF = os.path.dirname(os.path.dirname(os.path.abspath(__file__)))
REPO = os.environ.get("VERIF_REPO", "/repo")
PY = os.environ.get("VERIF_PY", "/venv/bin/python")
DEPS = os.path.join(VERIF, ".deps")
STUBS = os.path.join(VERIF, "vmon", "stubs")
OUT = os.path.join(VERIF, "out")
# evidence/ describes runs against /repo itself; a run against any other tree (a seeded break under VERIF_REPO) must
# never overwrite it
EVIDENCE = os.path.join(VERIF, "evidence") if os.path.realpath(REPO) == "/repo" else os.path.join(OUT, "evidence-other-tree")
NCPU = int(os.environ.get("VERIF_JOBS", "0")) or min(16, os.cpu_count() or 4)


def pythonpath(with_stubs=False):
    parts = [REPO, VERIF, DEPS]
    if with_stubs:
        parts.insert(0, STUBS)
    return os.pathsep.join(parts)


def worker_env(with_stubs=False, extra=None):
    env = dict(os.environ)
    env["PYTHONPATH"] = pythonpath(with_stubs)
    env["PYTHONDONTWRITEBYTECODE"] = "1"
    env["PYTHONHASHSEED"] = "0"
    env["VERIF_REPO"] = REPO
    # isolate from any user-level git configuration
    env["GIT_CONFIG_NOSYSTEM"] = "1"
    env.setdefault("GIT_CONFIG_GLOBAL", "/dev/null")
    env["GIT_TERMINAL_PROMPT"] = "0"
    env.pop("NBDIME_VERIF", None)
    if extra:
        env.update(extra)
    return env


def scratch(prefix="vmon-"):
    base = os.environ.get("TMPDIR") or tempfile.gettempdir()
    return tempfile.mkdtemp(prefix=prefix, dir=base)


_COREUTILS = ("sh", "env", "cat", "rm", "cp", "mv", "mkdir", "ls", "echo", "true", "false",
              "sed", "tr", "head", "tail", "test", "[", "printf", "dirname", "basename")


def make_path_variants(root):
    """Build the three PATH variants of DESIGN 3.3: full / diffonly / bare.

    Returns {name: PATH string}.  prettyprint looks tools up with shutil.which at
    call time, so switching os.environ['PATH'] selects git / diff3 / built-in.
    """
    full = os.environ.get("PATH", "/usr/bin:/bin")
    variants = {"full": full}
    # "spaced": all three helpers, found through a directory whose name contains blanks (C:\\Program Files\\Git\\bin,
    # "/Applications/Dev Tools/bin")
    # "diffnodiff3": busybox / Alpine style - a `diff` but neither `diff3` nor git
    for name, tools in (("diffonly", ("diff", "diff3")), ("bare", ()), ("spaced", ("git", "diff", "diff3")), ("diffnodiff3", ("diff",))):
        d = os.path.join(root, "path-" + name if name != "spaced" else "path with blanks in it")
        os.makedirs(d, exist_ok=True)
        for t in _COREUTILS + tools:
            src = shutil.which(t, path=full)
            if src and not os.path.exists(os.path.join(d, t)):
                os.symlink(src, os.path.join(d, t))
        variants[name] = d
    return variants


def git_style_variants(root):
    """user-level git configuration files selecting the conflict style that `git merge-file` (the text-merge helper
    of the 'full' PATH variant) prints: default (merge), diff3 (adds a ||||||| base section), zdiff3, and an unparsable file (git dies).
    Returns [path, ...]; switch with os.environ['GIT_CONFIG_GLOBAL']."""
    out = ["/dev/null"]
    for style in ("diff3", "zdiff3"):
        p = os.path.join(root, "gitconfig-" + style)
        with open(p, "w") as f:
            f.write("[merge]\n\tconflictstyle = %s\n" % style)
        out.append(p)
    # a user configuration git cannot parse: git is installed but every git command dies with status 128 and
    # prints nothing (the helper is "available on the machine" and fails)
    p = os.path.join(root, "gitconfig-unparsable")
    with open(p, "w") as f:
        f.write("[merge\n\tconflictstyle = diff3\nthis is not a config line\n")
    out.append(p)
    return out


_style_turn = [0]


def rotate_git_style(styles):
    """next conflict style for the coming merge (deterministic round robin); returns its label"""
    _style_turn[0] += 1
    p = styles[_style_turn[0] % len(styles)]
    os.environ["GIT_CONFIG_GLOBAL"] = p
    return os.path.basename(p).replace("gitconfig-", "").replace("null", "default")
