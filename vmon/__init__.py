"""vmon: runtime monitors for nbdime (see /verif/DESIGN.md)."""
