"""G-EDIT: seeded edit scripts over notebooks (plain dicts, normal form).

mutate(nb, gen, steps) -> (new_notebook, record) where record lists what was done.
All edits keep the notebook schema-valid for the minor version it declares.
"""
import copy

from .gen_nb import CODE_LINES, MD_LINES, OUT_LINES

CELL_OPS = ["insert", "insert_dup", "delete", "move", "edit_source", "edit_source", "edit_source",
            "rerun", "edit_output", "clear_outputs", "attachments", "cell_meta", "cell_meta",
            "nb_meta", "retype", "exec_count", "append_line", "line_endings", "pointer_only",
            "out_meta", "mime_edit", "transient_meta"]


def split_keep(s):
    return s.splitlines(True)


def edit_text(s, gen, pool):
    r = gen.rng
    lines = s.splitlines(True)
    if not lines:
        return gen.line(pool) + r.choice(["\n", ""])
    c = r.random()
    k = r.randrange(len(lines))
    end = "\n" if lines[k].endswith(("\n", "\r")) or k < len(lines) - 1 else ""
    if lines[k].endswith("\r\n"):
        end = "\r\n"
    if c < 0.3:      # rewrite a line, staying similar
        body = lines[k].rstrip("\r\n")
        lines[k] = body + " # edit %d" % r.randrange(100) + end
    elif c < 0.5:    # replace a line entirely
        lines[k] = gen.line(pool) + end
    elif c < 0.7:    # insert a line
        if not lines[-1].endswith(("\n", "\r")) and k == len(lines) - 1 and r.random() < 0.5:
            lines[-1] += "\n"
            lines.append(gen.line(pool))
        else:
            lines.insert(k, gen.line(pool) + "\n")
    elif c < 0.85 and len(lines) > 1:   # delete a line
        del lines[k]
    elif c < 0.92:   # toggle final newline
        if lines[-1].endswith("\n"):
            lines[-1] = lines[-1].rstrip("\r\n")
        else:
            lines[-1] += "\n"
    else:            # small in-line character change
        body = lines[k].rstrip("\r\n")
        if body:
            j = r.randrange(len(body))
            body = body[:j] + r.choice("xyz_0 ") + body[j + 1:]
        else:
            body = "q"
        lines[k] = body + end
    return "".join(lines)


def _pool(cell):
    return {"code": CODE_LINES, "markdown": MD_LINES}.get(cell["cell_type"], OUT_LINES)


def mutate_once(nb, gen, op=None):
    """Apply one edit in place; return a short record string (or None if not applicable)."""
    r = gen.rng
    cells = nb["cells"]
    minor = nb["nbformat_minor"]
    op = op or r.choice(CELL_OPS)
    if op == "insert":
        k = r.randrange(len(cells) + 1)
        cells.insert(k, gen.cell(minor))
        return "insert@%d" % k
    if op == "nb_meta":
        return _edit_meta(nb["metadata"], gen, "nb_meta", protect=("kernelspec", "language_info"))
    if not cells:
        return None
    k = r.randrange(len(cells))
    c = cells[k]
    if op == "insert_dup":
        d = copy.deepcopy(c)
        if "id" in d:
            d["id"] = gen.new_id()
        j = r.randrange(len(cells) + 1)
        cells.insert(j, d)
        return "dup %d@%d" % (k, j)
    if op == "delete":
        del cells[k]
        return "delete@%d" % k
    if op == "move" and len(cells) > 1:
        cells.insert(r.randrange(len(cells)), cells.pop(k))
        return "move %d" % k
    if op == "edit_source":
        c["source"] = edit_text(c["source"], gen, _pool(c))
        return "edit_source@%d" % k
    if op == "append_line":
        c["source"] = c["source"] + ("" if c["source"].endswith("\n") or not c["source"] else "\n") + gen.line(_pool(c))
        return "append_line@%d" % k
    if op == "line_endings" and c["source"]:
        s = c["source"]
        if "\r\n" in s:
            c["source"] = s.replace("\r\n", "\n")
        else:
            c["source"] = s.replace("\n", "\r\n")
        return "line_endings@%d" % k
    if op == "cell_meta":
        return _edit_meta(c["metadata"], gen, "cell_meta@%d" % k,
                          protect=("tags", "collapsed", "scrolled", "name", "format", "jupyter", "execution"))
    if op == "transient_meta":
        # the fields the merger treats as transient: collapsed / scrolled / autoscroll
        md = c["metadata"]
        if c["cell_type"] == "code":
            cc = r.random()
            if cc < 0.4:
                md["collapsed"] = not md.get("collapsed", False)
            elif cc < 0.7:
                md["scrolled"] = r.choice([x for x in (True, False, "auto") if x != md.get("scrolled", None)])
            else:
                md["autoscroll"] = r.choice([x for x in (True, False, "auto") if x != md.get("autoscroll", None)])
        else:
            md["autoscroll"] = r.choice([x for x in (True, False) if x != md.get("autoscroll", None)])
        return "transient_meta@%d" % k
    if op == "retype":
        old = c["cell_type"]
        new = r.choice([t for t in ("code", "markdown", "raw") if t != old])
        if old == "code":
            c.pop("outputs", None)
            c.pop("execution_count", None)
            for key in ("collapsed", "scrolled"):
                c["metadata"].pop(key, None)
        if new == "code":
            c["outputs"] = []
            c["execution_count"] = None
            c.pop("attachments", None)
            c["metadata"].pop("format", None)
        if new != "raw":
            c["metadata"].pop("format", None)
        c["cell_type"] = new
        return "retype@%d %s->%s" % (k, old, new)
    if op == "attachments" and c["cell_type"] != "code":
        att = c.setdefault("attachments", {})
        cc = r.random()
        if att and cc < 0.3:
            del att[r.choice(sorted(att))]
        elif att and cc < 0.45:
            att[r.choice(sorted(att))] = gen.mimebundle(True)
        elif att and cc < 0.6:
            # change INSIDE one attachment's bundle: one mime value edited / retyped / replaced by a like-typed scalar
            bundle = att[r.choice(sorted(att))]
            if bundle:
                _edit_bundle(bundle, gen)
        else:
            att[r.choice(["a.png", "b.png", "c.png", "fig 1.svg"])] = gen.mimebundle(True)
        if not att and r.random() < 0.5:
            del c["attachments"]
        return "attachments@%d" % k
    if c["cell_type"] != "code":
        return None
    outs = c["outputs"]
    if op == "rerun":
        ec = (c["execution_count"] or 0) + r.randrange(1, 5)
        c["execution_count"] = ec
        c["outputs"] = [gen.output(ec=ec) for _ in range(r.choice([0, 1, 1, 2, 3]))]
        return "rerun@%d" % k
    if op == "exec_count":
        c["execution_count"] = r.choice([None, (c["execution_count"] or 0) + 1])
        for o in outs:
            if o["output_type"] == "execute_result":
                o["execution_count"] = c["execution_count"]
        return "exec_count@%d" % k
    if op == "clear_outputs":
        c["outputs"] = []
        c["execution_count"] = None
        return "clear_outputs@%d" % k
    if op == "edit_output":
        cc = r.random()
        if not outs or cc < 0.25:
            outs.insert(r.randrange(len(outs) + 1), gen.output(ec=c["execution_count"]))
        elif cc < 0.4:
            del outs[r.randrange(len(outs))]
        else:
            o = r.choice(outs)
            if o["output_type"] == "stream":
                o["text"] = edit_text(o["text"], gen, OUT_LINES) or "x\n"
            elif o["output_type"] == "error":
                if o["traceback"] and r.random() < 0.7:
                    j = r.randrange(len(o["traceback"]))
                    o["traceback"][j] = edit_text(o["traceback"][j], gen, OUT_LINES)
                else:
                    o["evalue"] = o["evalue"] + "!"
            else:
                _edit_bundle(o["data"], gen)
        return "edit_output@%d" % k
    if op == "mime_edit":
        cand = [o for o in outs if "data" in o]
        if not cand:
            return None
        _edit_bundle(r.choice(cand)["data"], gen)
        return "mime_edit@%d" % k
    if op == "pointer_only":
        for o in outs:
            if "data" in o and isinstance(o["data"].get("text/plain"), str) and "0x" in o["data"]["text/plain"]:
                o["data"]["text/plain"] = o["data"]["text/plain"].replace("0x7f", "0x6e").replace("0x10", "0x20")
                return "pointer_only@%d" % k
        return None
    if op == "out_meta":
        cand = [o for o in outs if "metadata" in o]
        if not cand:
            return None
        return _edit_meta(r.choice(cand)["metadata"], gen, "out_meta@%d" % k, protect=())
    return None


def _edit_bundle(data, gen):
    r = gen.rng
    cc = r.random()
    if data and cc < 0.5:
        k = r.choice(sorted(data))
        v = data[k]
        if isinstance(v, str) and (k.lower().startswith("text/") or k in ("image/svg+xml", "application/javascript") or (k.endswith("json") and "\n" in v)):
            data[k] = edit_text(v, gen, OUT_LINES)
        else:
            nb = gen.mimebundle()
            data[k] = nb.get(k, gen.mimebundle(True).get(k, (v[:-4] + "QUJD") if isinstance(v, str) and len(v) > 8 else "changed"))
            if k in ("application/json", "application/vnd.custom+json") and k not in nb:
                data[k] = gen.value(1)
            if k in ("application/json", "application/vnd.custom+json") and not isinstance(v, (str, list, dict)) and r.random() < 0.7:
                # a bare JSON scalar replaced by another scalar of the SAME type
                if isinstance(v, bool):
                    data[k] = not v
                elif isinstance(v, int):
                    data[k] = v + r.randrange(1, 9)
                elif isinstance(v, float):
                    data[k] = v + 0.5
                else:
                    data[k] = r.randrange(100)
    elif data and cc < 0.65:
        del data[r.choice(sorted(data))]
    else:
        data.update(gen.mimebundle())


def _edit_meta(md, gen, label, protect):
    r = gen.rng
    keys = [k for k in sorted(md) if k not in protect]
    cc = r.random()
    if keys and cc < 0.2:
        del md[r.choice(keys)]
    elif keys and cc < 0.4:     # type-only change
        k = r.choice(keys)
        v = md[k]
        cyc = {True: 1, 1: 1.0, 1.0: True}
        if isinstance(v, bool):
            md[k] = int(v)
        elif isinstance(v, int):
            md[k] = float(v)
        elif isinstance(v, float) and v in (0.0, 1.0):
            md[k] = bool(v)
        else:
            md[k] = gen.value()
    elif keys and cc < 0.6:     # nested edit
        k = r.choice(keys)
        v = md[k]
        if isinstance(v, dict):
            v[r.choice(["a", "b", "new"])] = gen.scalar()
        elif isinstance(v, list):
            v.insert(r.randrange(len(v) + 1), (copy.deepcopy(v[0]) if v and r.random() < 0.5 else gen.scalar()))
        else:
            md[k] = gen.value()
    elif "tags" in md and cc < 0.7:
        t = md["tags"]
        new = [x for x in ("hide", "skip", "slide", "t1", "t2", "t3") if x not in t]
        if new and r.random() < 0.6:
            t.insert(r.randrange(len(t) + 1), r.choice(new))
        elif t:
            del t[r.randrange(len(t))]
    else:
        md[r.choice(["x", "y", "extra", "nested", "w"])] = gen.value()
    return label


def change_minor(nb, gen):
    """Move the notebook to another minor version, staying valid."""
    r = gen.rng
    old = nb["nbformat_minor"]
    new = r.choice([m for m in range(6) if m != old])
    if new >= 5 and old < 5:
        for c in nb["cells"]:
            c["id"] = gen.new_id()
    if new < 5 and old >= 5:
        for c in nb["cells"]:
            c.pop("id", None)
    nb["nbformat_minor"] = new
    return "minor %d->%d" % (old, new)


def mutate(nb, gen, steps=None, ops=None, allow_minor=False):
    r = gen.rng
    nb = copy.deepcopy(nb)
    # the generator must not hand out an id that already exists in this notebook
    for c in nb["cells"]:
        if "id" in c:
            gen._ids.add(c["id"])
    steps = steps if steps is not None else r.choice([1, 1, 2, 2, 3, 4, 6])
    record = []
    tries = 0
    while len(record) < steps and tries < steps * 6:
        tries += 1
        if allow_minor and r.random() < 0.08:
            record.append(change_minor(nb, gen))
            continue
        rec = mutate_once(nb, gen, r.choice(ops) if ops else None)
        if rec:
            record.append(rec)
    return nb, record
