"""python -m vmon.launcher <entry> [--vmon-spec FILE] -- <args...>

Runs a real nbdime console-script entry point the way its shim does
(`sys.exit(main())`, sys.argv[0] = script name), optionally with monitors:

* dump: what `merge_notebooks` returned in this very run (marker cells get random ids,
  so a second library call would not be comparable);
* boundaries: sys.monitoring PY_START step counter on the code objects that delimit the
  steps C08 names + a proxy around the designated output file (open / each write / close),
  writes re-chunked to 4 KiB;
* fault: inject OSError(EIO) / MemoryError / KeyboardInterrupt / SIGKILL at boundary k.

The spec file is JSON: {"dump": path, "record": path, "output": path, "fault": {"k": int, "kind": str}}.
Nothing in /repo is edited: everything is installed from here.
"""
import errno
import io
import json
import os
import signal
import sys

ENTRY = {
    "nbdiff": ("nbdime.nbdiffapp", "main"),
    "nbmerge": ("nbdime.nbmergeapp", "main"),
    "nbshow": ("nbdime.nbshowapp", "main"),
    "nbpatch": ("nbdime.nbpatchapp", "main"),
    "nbdime": ("nbdime.__main__", "main_dispatch"),
    "git-nbdiffdriver": ("nbdime.vcs.git.diffdriver", "main"),
    "git-nbmergedriver": ("nbdime.vcs.git.mergedriver", "main"),
    "git-nbdifftool": ("nbdime.vcs.git.difftool", "main"),
    "git-nbmergetool": ("nbdime.vcs.git.mergetool", "main"),
    "nbdiff-web": ("nbdime.webapp.nbdiffweb", "main"),
    "nbmerge-web": ("nbdime.webapp.nbmergeweb", "main"),
    "nbdime-server": ("nbdime.webapp.nbdimeserver", "main"),
}


class Steps:
    """numbered step boundaries + fault injection"""

    def __init__(self, spec):
        self.spec = spec
        self.n = 0
        self.log = []
        self.fault = spec.get("fault")
        self.fired = False
        self.counts = {}

    def hit(self, name):
        self.n += 1
        self.counts[name] = self.counts.get(name, 0) + 1
        label = "%s#%d" % (name, self.counts[name])
        self.log.append(label)
        self.flush()
        f = self.fault
        if f and not self.fired and f["k"] == self.n:
            self.fired = True
            self.log.append("FAULT %s at %s" % (f["kind"], label))
            self.flush()
            kind = f["kind"]
            if kind == "oserror":
                if name in ("write-output", "close-output", "open-output", "remove-output"):
                    # on the output side the error takes the shapes real devices give it: EIO, a reader that went
                    # away (EPIPE), a full device (ENOSPC), a revoked permission, a quota - all of them are failures
                    shapes = [(OSError, errno.EIO), (BrokenPipeError, errno.EPIPE), (OSError, errno.ENOSPC),
                              (PermissionError, errno.EACCES), (OSError, errno.EDQUOT), (ConnectionResetError, errno.ECONNRESET)]
                    cls, code = shapes[(self.n + f.get("shape", 0)) % len(shapes)]
                    self.log.append("SHAPE %s" % cls.__name__)
                    self.flush()
                    raise cls(code, "vmon injected %s at %s" % (errno.errorcode[code], label))
                raise OSError(errno.EIO, "vmon injected I/O error at %s" % label)
            if kind == "memory":
                raise MemoryError("vmon injected at %s" % label)
            if kind == "interrupt":
                raise KeyboardInterrupt()
            if kind == "kill":
                os.kill(os.getpid(), signal.SIGKILL)

    def flush(self):
        p = self.spec.get("record")
        if p:
            with _real_open(p, "w") as f:
                json.dump({"boundaries": self.log, "n": self.n}, f)


_real_open = io.open


class OutProxy:
    """file object for the designated output path: every write is a boundary"""

    def __init__(self, f, steps):
        self._f = f
        self._steps = steps

    def write(self, s):
        chunk = 4096
        total = 0
        for i in range(0, max(len(s), 1), chunk):
            part = s[i:i + chunk]
            self._steps.hit("write-output")
            total += self._f.write(part)
            self._f.flush()
        return total

    def close(self):
        self._steps.hit("close-output")
        return self._f.close()

    def __enter__(self):
        return self

    def __exit__(self, *a):
        self.close()
        return False

    def __getattr__(self, name):
        return getattr(self._f, name)


def install_open_proxy(steps, output):
    import builtins
    out_real = os.path.realpath(output)

    def vopen(file, mode="r", *a, **kw):
        try:
            is_out = isinstance(file, (str, os.PathLike)) and os.path.realpath(os.fspath(file)) == out_real
        except Exception:
            is_out = False
        if is_out and any(c in mode for c in "wax+"):
            steps.hit("open-output")
            return OutProxy(_real_open(file, mode, *a, **kw), steps)
        return _real_open(file, mode, *a, **kw)
    io.open = vopen
    builtins.open = vopen
    real_remove = os.remove

    def vremove(path, *a, **kw):
        try:
            if os.path.realpath(os.fspath(path)) == out_real:
                steps.hit("remove-output")
        except TypeError:
            pass
        return real_remove(path, *a, **kw)
    os.remove = vremove


def install_step_monitor(steps):
    """PY_START on the code objects of the functions that delimit the steps"""
    import nbdime.utils
    import nbdime.diffing.notebooks
    import nbdime.merging.generic
    import nbdime.merging.decisions
    import nbdime.nbmergeapp
    import nbformat
    targets = {
        nbdime.utils.read_notebook.__code__: "read_notebook",
        nbdime.diffing.notebooks.diff_notebooks.__code__: "diff_notebooks",
        nbdime.merging.generic.decide_merge_with_diff.__code__: "decide_merge_with_diff",
        nbdime.merging.decisions.apply_decisions.__code__: "apply_decisions",
        nbformat.writes.__code__: "nbformat.writes",
        nbdime.nbmergeapp._handle_agreed_deletion.__code__: "_handle_agreed_deletion",
    }
    mon = sys.monitoring
    tool = mon.DEBUGGER_ID
    mon.use_tool_id(tool, "vmon")

    def on_start(code, offset):
        name = targets.get(code)
        if name is None:
            return mon.DISABLE
        steps.hit(name)

    mon.register_callback(tool, mon.events.PY_START, on_start)
    for code in targets:
        mon.set_local_events(tool, code, mon.events.PY_START)


def install_dump(path):
    import nbdime.nbmergeapp as app
    real = app.merge_notebooks

    def merge_notebooks(*a, **kw):
        merged, decisions = real(*a, **kw)
        try:
            with _real_open(path, "w") as f:
                json.dump({"merged": merged, "decisions": decisions,
                           "conflict": any(d.get("conflict") for d in decisions)}, f)
        except Exception as e:   # never let the monitor change the run
            with _real_open(path, "w") as f:
                json.dump({"dump_error": repr(e)}, f)
        return merged, decisions
    app.merge_notebooks = merge_notebooks


def main():
    argv = sys.argv[1:]
    entry = argv[0]
    if os.environ.get("VMON_COVERAGE"):
        # planning aid (tools/coverage.py): which nbdime lines the launched command executes
        from .worker import start_line_coverage
        start_line_coverage("%s.launcher-%d" % (os.environ["VMON_COVERAGE"], os.getpid()))
    spec = {}
    rest = argv[1:]
    if rest and rest[0] == "--vmon-spec":
        with open(rest[1]) as f:
            spec = json.load(f)
        rest = rest[2:]
    if rest and rest[0] == "--":
        rest = rest[1:]
    modname, fname = ENTRY[entry]
    sys.argv = [entry] + rest
    import importlib
    mod = importlib.import_module(modname)
    if spec.get("dump"):
        install_dump(spec["dump"])
    if spec.get("record") or spec.get("fault"):
        steps = Steps(spec)
        if spec.get("output"):
            install_open_proxy(steps, spec["output"])
        install_step_monitor(steps)
    sys.exit(getattr(mod, fname)())


if __name__ == "__main__":
    main()
