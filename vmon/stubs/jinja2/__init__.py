"""Inert stand-in for jinja2 (not installed in this sandbox); see DESIGN.md 3.2.
Only what nbdime.webapp imports at module level."""


class FileSystemLoader:
    def __init__(self, searchpath=(), *a, **kw):
        self.searchpath = list(searchpath) if isinstance(searchpath, (list, tuple)) else [searchpath]


class ChoiceLoader:
    def __init__(self, loaders=()):
        self.loaders = list(loaders)


class _Template:
    def __init__(self, name):
        self.name = name

    def render(self, **ns):
        import json
        return "<!-- vmon stub template %s -->%s" % (self.name, json.dumps(ns.get("config_data", {}), default=repr))


class Environment:
    def __init__(self, loader=None, autoescape=False, **kw):
        self.loader = loader

    def get_template(self, name):
        return _Template(name)
