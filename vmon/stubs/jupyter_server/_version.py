__version__ = "0.0.vmon-stub"
