"""Thin stand-in for jupyter_server (not installed in this sandbox); see DESIGN.md 3.2.
All nbdime handler code is the real code; these classes only provide the base-class surface."""
