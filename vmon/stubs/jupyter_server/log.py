def log_request(handler):
    """request logging is not part of any property: silent"""
    return None
