import json
import logging

from tornado import web


class JupyterHandler(web.RequestHandler):
    """tornado RequestHandler with the few attributes nbdime's handlers use.
    No authentication (nbdime sets allow_unauthenticated_access)."""

    @property
    def base_url(self):
        return self.settings.get("base_url", "/")

    @property
    def log(self):
        return logging.getLogger("vmon.stub.jupyter_server")

    @property
    def jinja_template_vars(self):
        return {}

    def get_template(self, name):
        return self.settings["jinja2_env"].get_template(name)

    def render_template(self, name, **ns):
        return self.get_template(name).render(**ns)

    def get_json_body(self):
        if not self.request.body:
            return None
        return json.loads(self.request.body.decode("utf-8"))


class APIHandler(JupyterHandler):
    def finish(self, *args, **kwargs):
        self.set_header("Content-Type", "application/json")
        return super().finish(*args, **kwargs)
