// node --import ./register.mjs bridge.mjs ...   registers the TypeScript loader hooks
import { register } from 'node:module';
register('./loader.mjs', import.meta.url);
