// ESM loader that runs nbdime's TypeScript sources unmodified (C15):
//  * resolve: extension-less relative imports -> .ts (or dir/index.ts); '@lumino/coreutils' and
//    'json-stable-stringify' -> small stubs next to this file (no nbdime logic in them)
//  * load: strip types with node's built-in module.stripTypeScriptTypes (mode 'transform'), then drop
//    imported names that the target module does not export as values (what tsc's import elision does
//    for interfaces and type aliases imported without the `type` keyword)
import { stripTypeScriptTypes } from 'node:module';
import { readFileSync, existsSync, statSync } from 'node:fs';
import { fileURLToPath, pathToFileURL } from 'node:url';
import path from 'node:path';

const here = path.dirname(fileURLToPath(import.meta.url));
const STUBS = {
  '@lumino/coreutils': path.join(here, 'stubs', 'lumino-coreutils.mjs'),
  'json-stable-stringify': path.join(here, 'stubs', 'json-stable-stringify.mjs'),
};

const STUB_EXPORTS = { '@lumino/coreutils': ['JSONExt'], 'json-stable-stringify': ['stringify'] };

function resolveTs(spec, parentFile) {
  const base = path.resolve(path.dirname(parentFile), spec);
  for (const cand of [base + '.ts', path.join(base, 'index.ts'), base]) {
    if (existsSync(cand) && statSync(cand).isFile()) return cand;
  }
  return null;
}

export async function resolve(specifier, context, nextResolve) {
  if (STUBS[specifier]) {
    return { url: pathToFileURL(STUBS[specifier]).href, shortCircuit: true };
  }
  if ((specifier.startsWith('./') || specifier.startsWith('../')) && context.parentURL && context.parentURL.endsWith('.ts')) {
    const f = resolveTs(specifier, fileURLToPath(context.parentURL));
    if (f) return { url: pathToFileURL(f).href, shortCircuit: true };
  }
  if (specifier.endsWith('.ts') && path.isAbsolute(specifier)) {
    return { url: pathToFileURL(specifier).href, shortCircuit: true };
  }
  return nextResolve(specifier, context);
}

const jsCache = new Map();
function transformed(file) {
  if (!jsCache.has(file)) {
    const src = readFileSync(file, 'utf8');
    jsCache.set(file, stripTypeScriptTypes(src, { mode: 'transform' }));
  }
  return jsCache.get(file);
}

const exportCache = new Map();
function valueExports(file, seen = new Set()) {
  if (exportCache.has(file)) return exportCache.get(file);
  if (seen.has(file)) return new Set();
  seen.add(file);
  const js = transformed(file);
  const names = new Set();
  let m;
  const decl = /^export\s+(?:default\s+)?(?:async\s+)?(?:function\*?|class|const|let|var)\s+([A-Za-z_$][\w$]*)/gm;
  while ((m = decl.exec(js))) names.add(m[1]);
  const list = /^export\s*\{([^}]*)\}(?:\s*from\s*['"]([^'"]+)['"])?/gm;
  while ((m = list.exec(js))) {
    for (const part of m[1].split(',')) {
      const p = part.trim();
      if (!p || p.startsWith('type ')) continue;
      const as = p.split(/\s+as\s+/);
      names.add((as[1] || as[0]).trim());
    }
  }
  const star = /^export\s*\*\s*from\s*['"]([^'"]+)['"]/gm;
  while ((m = star.exec(js))) {
    const f = resolveTs(m[1], file);
    if (f) for (const n of valueExports(f, seen)) names.add(n);
  }
  exportCache.set(file, names);
  return names;
}

function elideImports(js, file) {
  return js.replace(/^import\s*\{([^}]*)\}\s*from\s*['"]([^'"]+)['"];?/gms, (whole, list, spec) => {
    if (!(spec.startsWith('./') || spec.startsWith('../'))) {
      if (STUBS[spec]) {
        const keptStub = list.split(',').map(s => s.trim()).filter(s => s && !s.startsWith('type ')).filter(s => STUB_EXPORTS[spec].includes(s.split(/\s+as\s+/)[0].trim()));
        return keptStub.length ? `import { ${keptStub.join(', ')} } from '${spec}';` : '';
      }
      return '';             // third-party packages that only provide types here
    }
    const target = resolveTs(spec, file);
    if (!target) return '';
    const exp = valueExports(target);
    const kept = list.split(',').map(s => s.trim()).filter(s => s && !s.startsWith('type ')).filter(s => exp.has(s.split(/\s+as\s+/)[0].trim()));
    if (!kept.length) return '';
    return `import { ${kept.join(', ')} } from '${spec}';`;
  });
}

export async function load(url, context, nextLoad) {
  if (url.endsWith('.ts')) {
    const file = fileURLToPath(url);
    let js = transformed(file);
    js = elideImports(js, file);
    return { format: 'module', source: js, shortCircuit: true };
  }
  return nextLoad(url, context);
}
