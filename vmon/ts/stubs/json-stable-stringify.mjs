// stand-in for json-stable-stringify (used by stringified.ts for display only)
function sortKeys(v) {
  if (Array.isArray(v)) return v.map(sortKeys);
  if (v && typeof v === 'object') { const o = {}; for (const k of Object.keys(v).sort()) o[k] = sortKeys(v[k]); return o; }
  return v;
}
function stringify(v, opts) { return JSON.stringify(sortKeys(v), null, opts && opts.space); }
export default stringify;
export { stringify };
