// stand-in for @lumino/coreutils: only JSONExt.deepCopy / deepEqual (no nbdime logic)
function deepCopy(v) { return v === undefined ? v : JSON.parse(JSON.stringify(v)); }
function deepEqual(a, b) {
  if (a === b) return true;
  if (typeof a !== typeof b || a === null || b === null || typeof a !== 'object') return false;
  if (Array.isArray(a) !== Array.isArray(b)) return false;
  if (Array.isArray(a)) return a.length === b.length && a.every((x, i) => deepEqual(x, b[i]));
  const ka = Object.keys(a), kb = Object.keys(b);
  return ka.length === kb.length && ka.every(k => Object.prototype.hasOwnProperty.call(b, k) && deepEqual(a[k], b[k]));
}
export const JSONExt = { deepCopy, deepEqual, isPrimitive: v => v === null || typeof v !== 'object', isArray: Array.isArray, isObject: v => v !== null && typeof v === 'object' && !Array.isArray(v) };
export default { JSONExt };
