// node --import ./register.mjs bridge.mjs <repo> <cases.jsonl> <results.jsonl>
// Runs every case through the REAL TypeScript patch / MergeDecision / applyDecisions / buildDiffs.
import { readFileSync, writeFileSync } from 'node:fs';
import path from 'node:path';
const [repo, casesFile, outFile] = process.argv.slice(2);
const src = path.join(repo, 'packages', 'nbdime', 'src');
const patchMod = await import(path.join(src, 'patch', 'index.ts'));
const decMod = await import(path.join(src, 'merge', 'decisions.ts'));
const out = [];
for (const line of readFileSync(casesFile, 'utf8').split('\n')) {
  if (!line) continue;
  const c = JSON.parse(line);
  const res = { id: c.id };
  try {
    if (c.kind === 'patch') {
      const before = JSON.stringify([c.base, c.diff]);
      res.patched = patchMod.patch(c.base, c.diff);
      // the same diff object applied again (a view re-renders): must give the same answer
      try { res.patched2 = patchMod.patch(c.base, c.diff); } catch (e) { res.patched2_error = String(e && e.message || e).slice(0, 300); }
      res.inputs_changed = JSON.stringify([c.base, c.diff]) !== before;
    } else if (c.kind === 'decisions') {
      const decs = c.decisions.map(d => new decMod.MergeDecision(d));
      const before = JSON.stringify([c.base, c.decisions]);
      res.applied = decMod.applyDecisions(c.base, decs);
      // the web merge tool applies the SAME decision objects again on every Save / Download
      try {
        res.applied2 = decMod.applyDecisions(c.base, decs);
        res.applied3 = decMod.applyDecisions(c.base, decs);
      } catch (e) { res.applied2_error = String(e && e.message || e).slice(0, 300); }
      res.inputs_changed = JSON.stringify([c.base, c.decisions]) !== before;
      for (const which of ['local', 'remote', 'merged']) {
        try {
          const decs2 = c.decisions.map(d => new decMod.MergeDecision(d));
          const d = decMod.buildDiffs(c.base, decs2, which);
          res[which] = d === null ? c.base : patchMod.patch(c.base, d);
        } catch (e) {
          res[which + '_error'] = String(e && e.message || e).slice(0, 300);
        }
      }
    }
  } catch (e) {
    res.error = String(e && e.message || e).slice(0, 300);
  }
  out.push(JSON.stringify(res));
}
writeFileSync(outFile, out.join('\n') + '\n');
