// node --import ./register.mjs bridge.mjs <repo> <cases.jsonl> <results.jsonl>
// Runs every case through the REAL TypeScript patch / MergeDecision / applyDecisions / buildDiffs.
import { readFileSync, writeFileSync } from 'node:fs';
import path from 'node:path';
const [repo, casesFile, outFile] = process.argv.slice(2);
const src = path.join(repo, 'packages', 'nbdime', 'src');
const patchMod = await import(path.join(src, 'patch', 'index.ts'));
const decMod = await import(path.join(src, 'merge', 'decisions.ts'));
const out = [];
for (const line of readFileSync(casesFile, 'utf8').split('\n')) {
  if (!line) continue;
  const c = JSON.parse(line);
  const res = { id: c.id };
  try {
    if (c.kind === 'patch') {
      res.patched = patchMod.patch(c.base, c.diff);
    } else if (c.kind === 'decisions') {
      const decs = c.decisions.map(d => new decMod.MergeDecision(d));
      res.applied = decMod.applyDecisions(c.base, decs);
      for (const which of ['local', 'remote', 'merged']) {
        try {
          const decs2 = c.decisions.map(d => new decMod.MergeDecision(d));
          const d = decMod.buildDiffs(c.base, decs2, which);
          res[which] = d === null ? c.base : patchMod.patch(c.base, d);
        } catch (e) {
          res[which + '_error'] = String(e && e.message || e).slice(0, 300);
        }
      }
    }
  } catch (e) {
    res.error = String(e && e.message || e).slice(0, 300);
  }
  out.push(JSON.stringify(res));
}
writeFileSync(outFile, out.join('\n') + '\n');
