"""C02 Generic JSON diff/patch round trip is exact, including value types."""
import random

from ..collect import Collector
from ..canon import chash, canon, to_plain, first_difference
from .. import gen_json as G

ID = "C02"
LEVEL = "exploration"
RULE = ("pairs (a,b) of same-container-type JSON documents; exhaustive over lists<=N of an 8-symbol alphabet "
        "{0,1,true,1.0,'a',null,[0],{k:0}}, strings<=N over {a,b,LF,CR,VT,LS}, dicts over keys {a,b} x 8 values, "
        "2-level nestings; plus seeded random nested values with related edits. Non-trivial: a != b type-strictly; "
        "exhaustive spaces are distinct by enumeration, random ones by canonical hash. Oracles per pair: "
        "nbdime.patch(a,diff(a,b)) == b, independent reference patcher == b, empty diff => identical, no exception.")
FLOOR = {"quick": 20000, "thorough": 300000}
EXHAUSTIVE = {"quick": False, "thorough": False}   # exhaustive sub-spaces + random remainder
REQUIRED_MONITORS = ("roundtrip",)
ASSUMPTIONS = ["reference patcher vmon/refdiff.py faithfully encodes docs/source/diffing.rst",
               "NaN/Infinity and non-string keys are outside JSON and not generated"]
NSHARDS = 16


def plan(tier, seed):
    specs = []
    for i in range(NSHARDS):
        specs.append({"i": i, "n": NSHARDS,
                      "list_n": 2 if tier == "quick" else 3,
                      "str_n": 3 if tier == "quick" else 4,
                      "random": 1500 if tier == "quick" else 25000})
    # two more shards (slices 0 and 1 of the enumerated spaces, fresh random streams) under `python -O`:
    # assert statements compiled away, as PYTHONOPTIMIZE=1 deployments run
    specs += [dict(specs[i], python_flags=["-O"]) for i in (0, 5)]
    return specs


def judge(col, a, b, space, enumerated):
    from .. import nbd
    from ..oracles import roundtrip_findings
    col.eval()
    try:
        d = nbd.diff(a, b)
        p = nbd.patch(a, d)
    except Exception as e:
        key, tmpl = nbd.exc_key(e)
        col.violation(classify_exc(key, tmpl), "%s: %s" % (key, str(e)[:200]), {"a": a, "b": b, "space": space}, "no-exception")
        col.count("exception")
        return
    col.mon("roundtrip")
    if not enumerated or col.evaluations % 8 == 0:
        # the diff TRANSPORTED as JSON text and revived the way nbpatch and the web server's clients do it: every string
        # in it (op names, keys) is then an equal but different object
        from nbdime.diff_utils import to_diffentry_dicts
        import json as _json
        try:
            d2 = to_diffentry_dicts(_json.loads(_json.dumps(to_plain(d))))
            p2 = nbd.patch(a, d2)
            col.count("patches_with_json_transported_diff")
            if canon(p2) != canon(b):
                col.violation("json-transported-diff-patches-differently", first_difference(p2, b), {"a": a, "b": b, "space": space, "diff": to_plain(d)}, "nbdime-patch")
        except Exception as e:
            key, tmpl = nbd.exc_key(e)
            col.violation("json-transported-diff-raised:" + key, str(e)[:200], {"a": a, "b": b, "space": space, "diff": to_plain(d)}, "nbdime-patch")
    fs = roundtrip_findings(a, b, d, p, want_empty_iff_identical=False)
    for mech, clause, detail in fs:
        col.violation(mech, detail, {"a": a, "b": b, "space": space, "diff": to_plain(d)}, clause)
    nontrivial = canon(a) != canon(b)
    if nontrivial:
        if enumerated:
            col.nt_enum()
        else:
            col.nt(chash(a, b))
        from ..oracles import numeric_only
        if numeric_only(a, b):
            col.count("pairs_differing_only_by_value_type")
        col.count("space:" + space)
        if len(col.samples) < 3 and len(d) > 1:
            col.sample({"a": a, "b": b, "diff": to_plain(d)})
    else:
        col.count("identical_pairs")


def classify_exc(key, tmpl):
    if key == "RuntimeError@diffing.generic:diff_dicts" and tmpl.startswith("Found predicate(s) for path"):
        return "predicate-guard-after-list-lookup"
    return "exception:" + key


def _hetero(v):
    if isinstance(v, list):
        kinds = {type(x).__name__ for x in v}
        return (len(kinds & {"list", "dict"}) > 0 and len(kinds) > 1) or any(_hetero(x) for x in v)
    if isinstance(v, dict):
        return any(_hetero(x) for x in v.values())
    return False


def run_shard(spec):
    col = Collector(ID)
    if "replay" in spec:
        c = spec["replay"]["case"]
        judge(col, c["a"], c["b"], c.get("space", "replay"), False)
        return col.result()
    i, n = spec["i"], spec["n"]
    k = 0
    # exhaustive: lists
    L = list(G.lists_upto(spec["list_n"]))
    for a in L:
        for b in L:
            k += 1
            if k % n == i:
                judge(col, a, b, "lists<=%d" % spec["list_n"], True)
    # exhaustive: strings (sampled 1:4 above length 3)
    S = list(G.strings_upto(spec["str_n"]))
    for a in S:
        for b in S:
            k += 1
            if k % n != i:
                continue
            if (len(a) > 3 or len(b) > 3) and (k // n) % 4 != 0:
                continue
            judge(col, a, b, "strings<=%d" % spec["str_n"], True)
    D = list(G.dicts_over())
    for a in D:
        for b in D:
            k += 1
            if k % n == i:
                judge(col, a, b, "dicts{a,b}", True)
    # 2-level nestings: [list, dict] and {a: list}
    inner_l = list(G.lists_upto(2, [0, True, "a", [0]]))
    inner_d = list(G.dicts_over(("k",), [0, True, 1.0, [0]]))
    N2 = [[l, d] for l in inner_l[:8] for d in inner_d] + [[d, l] for l in inner_l[:5] for d in inner_d]
    for a in N2:
        for b in N2:
            k += 1
            if k % n == i:
                judge(col, a, b, "nested[list,dict]", True)
    DL = [{"a": l} for l in inner_l] + [{"a": d} for d in inner_d]
    for a in DL:
        for b in DL:
            k += 1
            if k % n == i:
                judge(col, a, b, "nested{a:container}", True)
    # random
    r = random.Random(spec["seed"])
    for _ in range(spec["random"]):
        kind = r.choice(["dict", "list", "list", "str"])
        a = G.rand_value(r, 0)
        tries = 0
        while type(a).__name__ != kind and tries < 50:
            a = G.rand_value(r, 0) if kind != "str" else G.rand_string(r)
            tries += 1
        if r.random() < 0.75:
            b = G.rand_edit(r, a)
        else:
            b = G.rand_value(r, 0)
            tries = 0
            while type(b) is not type(a) and tries < 50:
                b = G.rand_value(r, 0) if not isinstance(a, str) else G.rand_string(r)
                tries += 1
        if type(a) is not type(b) or not isinstance(a, (dict, list, str)):
            continue
        if _hetero(a) or _hetero(b):
            col.count("pairs_with_heterogeneous_array")
        if r.random() < 0.15:
            # the same documents with one side held in nbformat's mapping type (what nbformat.read and nbdime's own
            # patch return) and the other in plain dicts
            import nbformat
            if r.random() < 0.5:
                a = nbformat.from_dict(a)
            else:
                b = nbformat.from_dict(b)
            col.count("pairs_with_mixed_mapping_types")
        judge(col, a, b, "random", False)
    # chains: the document a diff starts from is itself the RESULT of an earlier patch (incremental use: nbdime's
    # patch rebuilds containers as its own mapping type, so the two documents then mix mapping types), and the
    # target is a further edit of the earlier target
    for _ in range(max(100, spec["random"] // 6)):
        a = G.rand_value(r, 0)
        if not isinstance(a, (dict, list)):
            continue
        targeted = r.random() < 0.4
        if targeted:
            # an object with a null member somewhere in the document; step 1 changes ANOTHER member of that object
            # (so patch rebuilds it), step 2 drops the null member and adds a differently named one
            import copy
            obj = {"n": None, "v": r.randrange(9), "w": r.choice(["s", [1], {"d": 1}])}
            a = {"top": a, "o": obj} if r.random() < 0.5 else [a, {"in": obj}, 1]
            b1 = copy.deepcopy(a)
            o1 = b1["o"] if isinstance(b1, dict) else b1[1]["in"]
            o1["v"] = o1["v"] + 1
        else:
            b1 = G.rand_edit(r, a)
        try:
            from .. import nbd
            p = nbd.patch(a, nbd.diff(a, b1))
        except Exception:
            continue            # judged on its own above
        if targeted:
            c = copy.deepcopy(b1)
            o2 = c["o"] if isinstance(c, dict) else c[1]["in"]
            del o2["n"]
            o2[r.choice(["m", "n2", "z"])] = r.choice([None, 0, "x"])
        else:
            c = G.rand_edit(r, b1)
            if r.random() < 0.5:
                c = null_key_swap(r, c)
        if type(c) is type(b1):
            judge(col, p, c, "chained", False)
            col.count("chained_pairs_from_patch_results")
    # long documents: hundreds of items / keys / lines, so that indices, counts and integer VALUES leave the
    # small-number range (CPython caches ints up to 256; an identity comparison only shows beyond it)
    for _ in range(max(20, spec["random"] // 50)):
        a, b = long_pair(r)
        judge(col, a, b, "long", False)
    return col.result()


def null_key_swap(r, v):
    """somewhere in v, an object's null-valued member is dropped and a differently named member added (same size)"""
    import copy
    v = copy.deepcopy(v)
    objs = []

    def walk(x):
        if isinstance(x, dict):
            objs.append(x)
            for y in x.values():
                walk(y)
        elif isinstance(x, list):
            for y in x:
                walk(y)
    walk(v)
    r.shuffle(objs)
    for o in objs:
        nulls = [k for k, y in o.items() if y is None]
        if nulls:
            del o[r.choice(nulls)]
            o["new_member_%d" % r.randrange(9)] = r.choice([None, 0, "x"])
            return v
    if objs:
        o = objs[0]
        o["was_null"] = None        # next chain step may drop it
    return v


def long_pair(r):
    a, kind = long_base(r)
    return a, long_edit(r, a, kind)


def long_base(r):
    n = r.choice([257, 300, 300, 520, 700])
    kind = r.choice(["ints", "strs", "mixed", "dict", "lines"])
    if kind == "ints":
        a = [r.choice([i, i, i * 3, 1000 + i]) for i in range(n)]
    elif kind == "strs":
        a = ["item %d" % (i % r.choice([7, 50, 10 ** 6])) for i in range(n)]
    elif kind == "mixed":
        a = [r.choice([i, "s%d" % i, [i], {"k": i}, float(i), i % 2 == 0]) for i in range(n)]
    elif kind == "dict":
        a = {"key%04d" % i: r.choice([i, "v%d" % i, [i, i + 1]]) for i in range(n)}
    else:
        a = "".join("line %d of a long text\n" % (i % r.choice([5, 10 ** 6])) for i in range(n))
    return a, kind


def long_edit(r, a, kind):
    n = len(a) if kind != "lines" else a.count("\n")
    if kind == "dict":
        b = dict(a)
        for _ in range(r.randrange(1, 8)):
            k = "key%04d" % r.randrange(n + 20)
            c = r.random()
            if c < 0.3:
                b.pop(k, None)
            elif c < 0.6 and isinstance(b.get(k), list):
                b[k] = b[k] + [r.randrange(300, 900)]
            else:
                b[k] = r.choice([r.randrange(1000), "new", b.get(k, 0) if not isinstance(b.get(k), int) else float(b[k])])
        return b
    items = a.splitlines(True) if kind == "lines" else list(a)
    out = list(items)
    for _ in range(r.randrange(1, 9)):
        k = r.choice([r.randrange(len(out)), len(out) - r.randrange(1, min(40, len(out)))])
        c = r.random()
        if c < 0.3:
            del out[k:k + r.choice([1, 1, 2, 5])]
        elif c < 0.6:
            new = ("inserted %d\n" % r.randrange(10 ** 6)) if kind == "lines" else r.choice([r.randrange(257, 5000), "ins%d" % r.randrange(10 ** 6)])
            out.insert(k, new)
        elif c < 0.7 and k + 1 < len(out):
            out[k], out[k + 1] = out[k + 1], out[k]
        else:
            v = out[k]
            if kind == "lines":
                out[k] = v.rstrip("\n") + " edited\n"
            elif isinstance(v, bool):
                out[k] = int(v)
            elif isinstance(v, int):
                out[k] = r.choice([float(v), v + 1000, str(v)])
            elif isinstance(v, str):
                out[k] = v + "!"
            elif isinstance(v, list):
                out[k] = v + [r.randrange(300, 999)]
            elif isinstance(v, dict):
                out[k] = dict(v, extra=r.randrange(300, 999))
            else:
                out[k] = int(v)
    if r.random() < 0.3:
        out.append(("appended\n" if kind == "lines" else r.randrange(257, 9999)))
    return "".join(out) if kind == "lines" else out
