"""C16 Terminal rendering of notebooks, diffs and decisions never fails."""
import contextlib
import io
import json
import os
import random
import types

from ..collect import Collector
from ..canon import chash, canon, to_plain
from .. import env
from .c14 import leaf_paths, inside, CATS

ID = "C16"
LEVEL = "exploration"
RULE = ("pretty_print_notebook / pretty_print_notebook_diff / pretty_print_merge_decisions on notebooks, diffs and decision lists of "
        "the C01/C03 streams under configurations drawn from 64 include-subsets x colour on/off x colour-words on/off x renderer "
        "(git / diff / difflib, selected by use_git, use_diff and three PATH variants); text classes: base64 payloads, lines that look "
        "like diff headers or '\\ No newline at end of file', missing final newlines, non-ASCII/astral, CR-only endings, markdown and "
        "language_info (pygments branch), empty notebooks. Oracles: no exception; nothing written for an empty diff; something written "
        "for a non-empty diff and an action line ('## ...') when some op lies in an included and in no excluded category; no ESC byte "
        "when use_color is off. CLI level (in-process main with captured stdout): nbdiff, nbshow, nbmerge --decisions, "
        "git-nbdiffdriver diff exit 0. Non-trivial: rendering of a non-empty diff / decision list / notebook with >= 2 cells; distinct "
        "by hash of (input, configuration).")
FLOOR = {"quick": 3000, "thorough": 50000}
REQUIRED_MONITORS = ("render_notebook", "render_diff", "render_decisions", "cli")
ASSUMPTIONS = ["user-level git configuration isolated (GIT_CONFIG_GLOBAL=/dev/null, GIT_CONFIG_NOSYSTEM=1)",
               "generated content never contains ESC itself", "output consisting only of the header is accepted where the property does not demand more"]
NSHARDS = 16


def plan(tier, seed):
    if tier == "quick":
        return [{"pairs": 60, "triples": 20, "cfgs": 6, "cli_every": 10, "timeout": 900} for i in range(NSHARDS)]
    return [{"pairs": 900, "triples": 300, "cfgs": 8, "cli_every": 20, "timeout": 3000} for i in range(NSHARDS)]


def rand_cfg(r):
    inc = {c: r.random() < 0.7 for c in CATS}
    return {"include": inc, "use_color": r.random() < 0.5, "color_words": r.random() < 0.3,
            "use_git": r.random() < 0.6, "use_diff": r.random() < 0.6, "path_variant": r.choice(["full", "full", "diffonly", "bare", "spaced", "diffnodiff3"])}


_how = [0]


def make_pp(cfg, out):
    """the configuration object, set up in one of the three ways callers (and nbdime itself, e.g. `config.out = ...`)
    use: constructor arguments / a default object whose public attributes are assigned afterwards / a copy of an
    existing (coloured, everything-included) configuration that is re-targeted"""
    import copy
    import nbdime.prettyprint as pp
    inc = types.SimpleNamespace(**cfg["include"])
    _how[0] += 1
    how = _how[0] % 4
    if how in (0, 1):
        # `language` is a public constructor argument (the lexer for code cells when the notebook does not name one): a
        # caller that knows it passes it whether colour is on or off
        lang = [None, None, "python", "r", "no-such-language"][(_how[0] // 4) % 5]
        return pp.PrettyPrintConfig(out=out, include=inc, color_words=cfg["color_words"], use_git=cfg["use_git"],
                                    use_diff=cfg["use_diff"], use_color=cfg["use_color"], language=lang)
    c = pp.PrettyPrintConfig() if how == 2 else copy.copy(pp.PrettyPrintConfig(use_color=True, color_words=True))
    c.out = out
    for key, val in cfg["include"].items():
        setattr(c, key, val)
    c.color_words, c.use_git, c.use_diff, c.use_color = cfg["color_words"], cfg["use_git"], cfg["use_diff"], cfg["use_color"]
    return c


def renderer_of(cfg):
    v = cfg["path_variant"]
    if cfg["use_git"] and v in ("full", "spaced"):
        return "git"
    if cfg["use_diff"] and v in ("full", "diffonly", "spaced", "diffnodiff3"):
        return "diff"
    return "difflib"


def has_esc(x):
    if isinstance(x, str):
        return "\x1b" in x
    if isinstance(x, dict):
        return any(has_esc(k) or has_esc(v) for k, v in x.items())
    if isinstance(x, (list, tuple)):
        return any(has_esc(v) for v in x)
    return False


def render(col, paths, what, fn, cfg, case, nontrivial_key):
    from .. import nbd
    col.eval()
    out = io.StringIO()
    os.environ["PATH"] = paths[cfg["path_variant"]]
    try:
        fn(make_pp(cfg, out))
    except Exception as e:
        key, tmpl = nbd.exc_key(e)
        col.violation("render-raised:%s:%s|%s" % (what, key, tmpl[:40]), "%s raised %s: %s [cfg=%s]" % (what, key, str(e)[:150], cfg),
                      dict(case, cfg=cfg, what=what), "never-fails")
        return None
    finally:
        os.environ["PATH"] = paths["full"]
    col.mon("render_" + what)
    col.count("renderer:" + renderer_of(cfg))
    text = out.getvalue()
    if not cfg["use_color"] and "\x1b" in text:
        where = text[max(0, text.index("\x1b") - 40): text.index("\x1b") + 20]
        col.violation("ansi-escape-without-colour:%s" % what, "%s wrote ESC with use_color=False near %r" % (what, where),
                      dict(case, cfg=cfg, what=what), "no-ansi")
    if nontrivial_key is not None:
        col.nt(chash(what, nontrivial_key, cfg))
    return text


def run_shard(spec):
    from .. import nbd
    from ..gen_nb import NBGen, to_node, disk_form
    from ..workloads import valid_pair, valid_triple, covering_configs, merge_args
    import nbdime.prettyprint as pp
    col = Collector(ID)
    scratch = os.environ.get("VMON_SCRATCH", "/tmp")
    paths = env.make_path_variants(os.path.join(scratch, "paths-%s" % spec.get("shard", 0)))
    tmp = os.path.join(scratch, "c16-%s" % spec.get("shard", 0))
    os.makedirs(tmp, exist_ok=True)
    os.chdir(tmp)
    r = random.Random(spec["seed"])
    if "replay" in spec:
        c = spec["replay"]["case"]
        cfg = c["cfg"]
        nbd.hygiene()
        if c["what"] == "decisions":
            nb_ = to_node(c["base"])
            dec = nbd.decide_notebook_merge(nb_, to_node(c["local"]), to_node(c["remote"]), merge_args(c["config"]))
            render(col, paths, "decisions", lambda p: pp.pretty_print_merge_decisions(nb_, dec, p), cfg, c, None)
        else:
            na, nb_ = to_node(c["A"]), to_node(c["B"])
            d = nbd.diff_notebooks(na, nb_)
            if c["what"] == "notebook":
                render(col, paths, "notebook", lambda p: pp.pretty_print_notebook(na, p), cfg, c, None)
            else:
                render(col, paths, "diff", lambda p: pp.pretty_print_notebook_diff("a.ipynb", "b.ipynb", na, d, p), cfg, c, None)
        return col.result()
    for k in range(spec["pairs"]):
        gen = NBGen(r, exotic=(k % 4 == 0))
        cls, a, b, rec, waste = valid_pair(gen)
        if cls is None or has_esc([a, b]):
            continue
        nbd.hygiene()
        na, nb_ = to_node(a), to_node(b)
        try:
            d = nbd.diff_notebooks(na, nb_)
        except Exception:
            continue
        pd = to_plain(d)
        lp = leaf_paths(pd)
        case = {"A": a, "B": b, "class": cls}
        cfgs = [rand_cfg(r) for _ in range(spec["cfgs"])]
        if cls == "diff_lookalike":     # the branch that post-processes external tool output
            cfgs += [dict(rand_cfg(r), use_color=True, color_words=True, use_git=True, path_variant="full"),
                     dict(rand_cfg(r), use_color=False, use_git=True, path_variant="full"),
                     dict(rand_cfg(r), use_git=False, use_diff=True, path_variant="diffonly")]
            for c_ in cfgs[-3:]:
                c_["include"] = {c: True for c in CATS}
        for cfg in cfgs:
            render(col, paths, "notebook", lambda p: pp.pretty_print_notebook(na, p), cfg, case, (a,) if len(a["cells"]) >= 2 else None)
            text = render(col, paths, "diff", lambda p: pp.pretty_print_notebook_diff("a.ipynb", "b.ipynb", na, d, p), cfg, case, (a, b) if pd else None)
            if text is None:
                continue
            if not pd and text:
                col.violation("output-for-empty-diff", repr(text[:100]), dict(case, cfg=cfg, what="diff"), "silent-on-empty")
            if pd and not text:
                col.violation("no-output-for-nonempty-diff", "", dict(case, cfg=cfg, what="diff"), "prints-something")
            inc = cfg["include"]
            demanded = [p for p, op in lp if any(inside(p, c) and inc[c] for c in ("sources", "outputs", "attachments", "metadata"))
                        and not any(inside(p, c) and not inc[c] for c in CATS) and inc["details"]]
            if demanded and "## " not in text:
                col.violation("no-action-line-for-included-change", "ops at %s are in included categories, output has no '## ' line" % demanded[:3],
                              dict(case, cfg=cfg, what="diff"), "prints-something")
            if demanded:
                col.count("renderings_with_demanded_action_line")
            e = io.StringIO()
            pp.pretty_print_notebook_diff("a.ipynb", "b.ipynb", na, [], make_pp(cfg, e))
            if e.getvalue():
                col.violation("output-for-empty-diff", repr(e.getvalue()[:100]), dict(case, cfg=cfg, what="diff"), "silent-on-empty")
        if len(col.samples) < 1 and pd and len(pd) < 3:
            o = io.StringIO()
            pp.pretty_print_notebook_diff("a.ipynb", "b.ipynb", na, d, make_pp({"include": {c: True for c in CATS}, "use_color": False, "color_words": False, "use_git": False, "use_diff": False, "path_variant": "bare"}, o))
            col.sample({"class": cls, "rendered_diff_head": o.getvalue()[:600]})
        if k % spec["cli_every"] == 0:
            cli(col, a, b, tmp, r, nbd)
    for k in range(spec["triples"]):
        gen = NBGen(r, exotic=(k % 5 == 0))
        cls, b, l, rm, info, waste = valid_triple(gen)
        if cls is None or has_esc([b, l, rm]):
            continue
        for mcfg in covering_configs(r, 3):
            nbd.hygiene()
            nb_ = to_node(b)
            try:
                dec = nbd.decide_notebook_merge(nb_, to_node(l), to_node(rm), merge_args(mcfg))
            except Exception:
                continue
            case = {"base": b, "local": l, "remote": rm, "config": mcfg, "class": cls}
            for _ in range(2):
                cfg = rand_cfg(r)
                render(col, paths, "decisions", lambda p: pp.pretty_print_merge_decisions(nb_, dec, p), cfg, case, (b, l, rm, mcfg) if dec else None)
        if k % spec["cli_every"] == 0:
            cli_merge(col, b, l, rm, tmp, r, nbd)
    return col.result()


def _run_main(main, argv):
    out, err = io.StringIO(), io.StringIO()
    with contextlib.redirect_stdout(out), contextlib.redirect_stderr(err):
        try:
            rc = main(argv)
        except SystemExit as e:
            rc = e.code
    return rc, out.getvalue(), err.getvalue()


def cli(col, a, b, tmp, r, nbd):
    from ..gen_nb import disk_form
    import nbdime.nbdiffapp
    import nbdime.nbshowapp
    import nbdime.vcs.git.diffdriver as dd
    fa, fb = os.path.join(tmp, "A.ipynb"), os.path.join(tmp, "B.ipynb")
    for fn, nb in ((fa, a), (fb, b)):
        with open(fn, "w", encoding="utf8") as f:
            json.dump(disk_form(nb, r), f)
    flags = r.choice([[], ["--no-color"], ["-s", "-o"], ["-M", "-D"], ["--no-git"], ["--no-git", "--no-use-diff", "--no-color"], ["--color-words"]])
    # the diff driver as git runs it inside a repository, with --use-filter: the remote file goes through the clean filter
    # that the repository attaches to the path (a filter that matches, one that does not, none at all)
    import subprocess
    if not os.path.isdir(os.path.join(tmp, ".git")):
        subprocess.run(["git", "init", "-q", tmp], capture_output=True)
        subprocess.run(["git", "-C", tmp, "config", "filter.strip.clean", "sed -e 's/SECRET_[0-9]*/SECRET/g'"], capture_output=True)
    with open(os.path.join(tmp, ".gitattributes"), "w") as f:
        f.write(r.choice(["*.ipynb filter=strip\n", "sub/*.ipynb filter=strip\n", "", "A.ipynb filter=nosuchfilter\n"]))
    cwd0 = os.getcwd()
    os.chdir(tmp)
    try:
        _cli_runs(col, a, b, r, nbd, flags, fa, fb, nbdime, dd)
    finally:
        os.chdir(cwd0)


def _cli_runs(col, a, b, r, nbd, flags, fa, fb, nbdime, dd):
    for name, main, argv in (("nbdiff", nbdime.nbdiffapp.main, flags + [fa, fb]),
                             ("git-nbdiffdriver --use-filter", dd.main, ["diff", "--use-filter"] + flags + ["A.ipynb", fa, "0" * 40, "100644", fb, "1" * 40, "100644"]),
                             ("nbshow", nbdime.nbshowapp.main, [x for x in flags if x in ("-s", "-o", "-M", "-D")] + [fa]),
                             ("git-nbdiffdriver", dd.main, ["diff"] + flags + ["A.ipynb", fa, "0" * 40, "100644", fb, "1" * 40, "100644"])):
        nbd.hygiene()
        col.eval()
        try:
            rc, out, err = _run_main(main, argv)
        except Exception as e:
            key, tmpl = nbd.exc_key(e)
            col.violation("cli-raised:%s:%s|%s" % (name, key, tmpl[:40]), "%s %s: %s" % (name, flags, str(e)[:150]),
                          {"A": a, "B": b, "what": "cli", "cli": name, "flags": flags, "cfg": {}}, "cli")
            continue
        finally:
            nbd.quiet_logging()
            nbd.dn.reset_notebook_differ()
        col.mon("cli")
        col.count("cli:" + name)
        if rc not in (0, None):
            col.violation("cli-nonzero-exit:%s" % name, "rc=%r flags=%s err=%s" % (rc, flags, err[-200:]),
                          {"A": a, "B": b, "what": "cli", "cli": name, "flags": flags, "cfg": {}}, "cli")
        if "--no-color" in argv and "\x1b" in out and not has_esc([a, b]):
            col.violation("ansi-escape-without-colour:cli:%s" % name, "flags=%s" % flags, {"A": a, "B": b, "what": "cli", "cli": name, "flags": flags, "cfg": {}}, "no-ansi")


def cli_merge(col, b, l, rm, tmp, r, nbd):
    from ..gen_nb import disk_form
    import nbdime.nbmergeapp
    fns = []
    for name, nb in (("b", b), ("l", l), ("r", rm)):
        fn = os.path.join(tmp, name + ".ipynb")
        with open(fn, "w", encoding="utf8") as f:
            json.dump(disk_form(nb, r), f)
        fns.append(fn)
    flags = r.choice([[], ["--no-color"], ["--no-git"], ["--no-git", "--no-use-diff"]])
    nbd.hygiene()
    col.eval()
    try:
        rc, out, err = _run_main(nbdime.nbmergeapp.main, ["--decisions"] + flags + fns)
    except Exception as e:
        key, tmpl = nbd.exc_key(e)
        import traceback
        frames = "".join(traceback.format_tb(e.__traceback__))
        if "prettyprint.py" not in frames and ("merging" in frames):
            col.count("cli_merge_raised_in_merger(C03's business)")
            return
        col.violation("cli-raised:nbmerge--decisions:%s|%s" % (key, tmpl[:40]), str(e)[:150],
                      {"base": b, "local": l, "remote": rm, "what": "cli", "cfg": {}}, "cli")
        return
    finally:
        nbd.quiet_logging()
        nbd.dn.reset_notebook_differ()
    col.mon("cli")
    col.count("cli:nbmerge--decisions")
    if rc not in (0, 1):
        col.violation("cli-nonzero-exit:nbmerge--decisions", "rc=%r" % rc, {"base": b, "local": l, "remote": rm, "what": "cli", "cfg": {}}, "cli")
