"""C17 Diffing git revisions examines exactly the notebooks git reports as changed."""
import json
import os
import random
import shutil
import subprocess
import sys

from ..collect import Collector
from ..canon import chash, canon

ID = "C17"
LEVEL = "exploration"
RULE = ("generated repositories: 3-12 commits over nested directories (names with spaces / non-ASCII) that add, edit, delete and rename "
        "(with and without content change, also notebook <-> non-notebook) notebooks and other files, then staged and unstaged changes "
        "incl. deleting a tracked notebook from the work tree. For each repository: commit pairs among sampled commits, commit/index, "
        "commit/working tree, index/working tree; from the root and from sub-directories; no filter / file filter / directory filter / "
        "two filters. Observed: the multiset of (a-content-or-null, b-content-or-null) yielded by changed_notebooks and os.getcwd() "
        "afterwards (also when the iterator is abandoned); expectation from the git CLI (`git diff --raw -z -M`, `git show`), entries "
        "whose two paths end in .ipynb. CLI level: `nbdiff <ref> [<ref>] [paths]` in a subprocess, header lines vs expected changed "
        "notebooks. Non-trivial: >= 2 changed paths of which >= 1 notebook; distinct by hash of (repo, refs, cwd, filters).")
FLOOR = {"quick": 150, "thorough": 3000}
REQUIRED_MONITORS = ("pairs_vs_git", "cwd_restored", "cli_headers")
ASSUMPTIONS = ["the git CLI is ground truth", "clean filters only of the sed kind configured by the harness (content-preserving apart from a token); autocrlf off; isolated HOME",
               "GitPython's default diff passes -M, so renames pair old with new content"]
NSHARDS = 16
DIRS = ["", "sub", "sub/deep dir", "sub/deep dir/δ", "other"]


def plan(tier, seed):
    if tier == "quick":
        return [{"repos": 1, "cmp": 40, "cli": 4, "timeout": 1200} for i in range(NSHARDS)]
    return [{"repos": 9, "cmp": 70, "cli": 8, "timeout": 3300} for i in range(NSHARDS)]


class Repo:
    def __init__(self, root, r):
        self.root = root
        self.r = r
        self.env = dict(os.environ, GIT_AUTHOR_NAME="v", GIT_AUTHOR_EMAIL="v@v", GIT_COMMITTER_NAME="v", GIT_COMMITTER_EMAIL="v@v")
        self.commits = []
        self.n = 0

    def git(self, *a, cwd=None, check=True, text=False):
        p = subprocess.run(["git", "-c", "core.quotepath=off"] + list(a), cwd=cwd or self.root, env=self.env, capture_output=True, timeout=60)
        if check and p.returncode != 0:
            raise RuntimeError("git %r failed: %s" % (a, p.stderr.decode(errors="replace")[-200:]))
        return p.stdout.decode("utf8", "replace") if text else p.stdout

    def cleaned(self, path, text):
        """what git's clean filter makes of the work-tree file at path (root-relative), per git's own attribute lookup"""
        if not getattr(self, "filter_pattern", None):
            return text
        out = self.git("check-attr", "filter", "--", path, text=True)
        if out.strip().endswith(": strip"):
            import re
            return re.sub(r"SECRET_[0-9]*", "SECRET", text)
        return text

    def tracked(self):
        out = self.git("ls-files", "-z").decode("utf8")
        return [x for x in out.split("\0") if x]

    def new_nb(self):
        self.n += 1
        nb = {"nbformat": 4, "nbformat_minor": 4, "metadata": {}, "cells": [
            {"cell_type": "code", "metadata": {}, "source": "x = %d\nprint(x)\ntoken = 'SECRET_%d'" % (self.n, self.n * 7), "execution_count": None, "outputs": []},
            {"cell_type": "markdown", "metadata": {}, "source": "note %d" % self.n}]}
        return json.dumps(nb, indent=1) + "\n"

    def edit(self, path):
        full = os.path.join(self.root, path)
        self.n += 1
        if path.endswith(".ipynb"):
            try:
                with open(full, encoding="utf8") as f:
                    nb = json.load(f)
                nb["cells"][0]["source"] += "\n# edit %d" % self.n
                txt = json.dumps(nb, indent=1) + "\n"
            except Exception:
                txt = self.new_nb()
        else:
            txt = "text %d\n" % self.n
        with open(full, "w", encoding="utf8") as f:
            f.write(txt)

    def mutate_tree(self, steps):
        r = self.r
        for _ in range(steps):
            files = self.tracked_or_present()
            c = r.random()
            if c < 0.35 or not files:
                d = r.choice(DIRS)
                os.makedirs(os.path.join(self.root, d), exist_ok=True)
                self.n += 1
                name = r.choice(["nb%d.ipynb", "note book %d.ipynb", "ñb%d.ipynb", "data%d.txt", "script%d.py"]) % self.n
                p = os.path.join(d, name)
                with open(os.path.join(self.root, p), "w", encoding="utf8") as f:
                    f.write(self.new_nb() if name.endswith(".ipynb") else "text %d\n" % self.n)
            elif c < 0.6:
                self.edit(r.choice(files))
            elif c < 0.65:
                # mode-only change (chmod +x / -x): git reports the file as modified although its content is the same
                full = os.path.join(self.root, r.choice(files))
                os.chmod(full, os.stat(full).st_mode ^ 0o111)
            elif c < 0.78:
                os.remove(os.path.join(self.root, r.choice(files)))
            else:
                src = r.choice(files)
                d = r.choice(DIRS)
                os.makedirs(os.path.join(self.root, d), exist_ok=True)
                self.n += 1
                base, ext = os.path.splitext(os.path.basename(src))
                if r.random() < 0.2:
                    ext = ".txt" if ext == ".ipynb" else ".ipynb"
                dst = os.path.join(d, "%s_r%d%s" % (base, self.n, ext))
                os.rename(os.path.join(self.root, src), os.path.join(self.root, dst))
                if dst.endswith(".ipynb") and not src.endswith(".ipynb"):
                    with open(os.path.join(self.root, dst), "w", encoding="utf8") as f:
                        f.write(self.new_nb())        # a file named .ipynb always holds a notebook
                elif r.random() < 0.5 and dst.endswith(".ipynb") and src.endswith(".ipynb"):
                    self.edit(dst)

    def tracked_or_present(self):
        out = []
        for dp, dn, fn in os.walk(self.root):
            if ".git" in dp.split(os.sep):
                continue
            for f in fn:
                out.append(os.path.relpath(os.path.join(dp, f), self.root))
        return sorted(out)

    def build(self):
        r = self.r
        self.git("init", "-q", "-b", "main")
        self.git("config", "core.autocrlf", "false")
        # a clean filter (what nbstripout & co. install), attached to notebooks by a pattern that may be path-scoped:
        # git - and nbdime, diffing against the working tree - compare the FILTERED content of the files on disk
        self.filter_pattern = r.choice([None, None, "*.ipynb", "sub/*.ipynb", "/*.ipynb", "other/**", "sub/deep[[:space:]]dir/*.ipynb", "sub/**/*.ipynb"])
        if self.filter_pattern:
            self.git("config", "filter.strip.clean", "sed -e 's/SECRET_[0-9]*/SECRET/g'")
            os.makedirs(os.path.join(self.root, ".git", "info"), exist_ok=True)
            with open(os.path.join(self.root, ".git", "info", "attributes"), "w") as f:
                f.write("%s filter=strip\n" % self.filter_pattern)
        for i in range(r.randrange(3, 13)):
            self.mutate_tree(r.randrange(1, 5))
            self.git("add", "-A")
            p = subprocess.run(["git", "commit", "-q", "--allow-empty", "-m", "c%d" % i], cwd=self.root, env=self.env, capture_output=True)
            self.commits.append(self.git("rev-parse", "HEAD", text=True).strip())
        # branches / tags named like a directory or a file of the work tree (a `docs` branch next to docs/): as a
        # REVISION argument of the API they still mean the revision
        self.colliding_refs = []
        for name in r.sample(["sub", "other", "sub/deep dir"], r.choice([0, 1, 2])):
            if os.path.isdir(os.path.join(self.root, name)) and " " not in name:
                tgt = r.choice(self.commits)
                if self.git("branch", name, tgt, check=False, text=True) is not None:
                    self.colliding_refs.append(name)
        # staged changes
        self.mutate_tree(r.randrange(0, 4))
        self.git("add", "-A")
        # unstaged changes (incl. deleting tracked notebooks): several notebooks in one directory
        self.mutate_tree(r.randrange(1, 5))
        tracked = [p for p in self.tracked() if p.endswith(".ipynb") and os.path.exists(os.path.join(self.root, p))]
        for p in tracked[: r.randrange(0, 4)]:
            self.edit(p)
        if tracked and r.random() < 0.5:
            os.remove(os.path.join(self.root, tracked[-1]))
        # a tracked notebook whose PATH is no longer a file: a directory now sits where it was (a package took over the
        # name), or a plain file sits where its directory was (a checkout of another layout): git reports it deleted
        self.unreachable = None
        tracked = [p for p in self.tracked() if p.endswith(".ipynb") and os.path.isfile(os.path.join(self.root, p))]
        if tracked and r.random() < 0.3:
            import shutil
            p = r.choice(tracked)
            d = os.path.dirname(p)
            if d and r.random() < 0.5:
                top = os.path.join(self.root, d.split(os.sep)[0])
                shutil.rmtree(top)
                with open(top, "w") as f:
                    f.write("now a file\n")
                self.unreachable = "directory-became-a-file"
            else:
                os.remove(os.path.join(self.root, p))
                os.makedirs(os.path.join(self.root, p))
                if r.random() < 0.5:
                    with open(os.path.join(self.root, p, "inner.txt"), "w") as f:
                        f.write("x\n")
                self.unreachable = "notebook-path-became-a-directory"


def parse_raw(z):
    """entries of `git diff --raw -z`: (status, a_path, b_path)"""
    parts = z.decode("utf8").split("\0")
    out = []
    i = 0
    while i < len(parts) and parts[i]:
        meta = parts[i]
        status = meta.split(" ")[-1]
        if status[0] in "RC":
            out.append((status[0], parts[i + 1], parts[i + 2]))
            i += 3
        else:
            out.append((status[0], parts[i + 1], parts[i + 1]))
            i += 2
    return out


def expected(repo, ra, rb, paths_from_root):
    """list of (a_content|None, b_content|None, a_path, b_path) via the git CLI, run in the repo root"""
    args = ["diff", "--raw", "-z", "-M", "--abbrev=40"]
    if ra == "INDEX" and rb == "WORK":
        pass
    elif rb == "INDEX":
        args += ["--cached", ra]
    elif rb == "WORK":
        args += [ra]
    else:
        args += [ra, rb]
    args += ["--"] + list(paths_from_root or [])      # always: a revision may be named like a file or directory
    entries = parse_raw(repo.git(*args))
    out = []
    for status, ap, bp in entries:
        if not (ap.endswith(".ipynb") and bp.endswith(".ipynb")):
            continue

        def content(ref, path):
            if ref == "WORK":
                full = os.path.join(repo.root, path)
                if not os.path.isfile(full):
                    return None
                with open(full, encoding="utf8") as f:
                    return repo.cleaned(path, f.read())
            spec = (":%s" % path) if ref == "INDEX" else "%s:%s" % (ref, path)
            return repo.git("show", spec).decode("utf8")
        a = None if status == "A" else content(ra, ap)
        b = None if status == "D" else content(rb, bp)
        out.append((a, b, ap, bp))
    return out


def observe(repo, ra, rb, cwd, paths, abandon=False):
    """drive the real changed_notebooks from directory cwd; returns (pairs, cwd_after)"""
    import nbdime.gitfiles as gf
    from nbdime.utils import EXPLICIT_MISSING_FILE
    conv = {"INDEX": gf.GitRefIndex, "WORK": gf.GitRefWorkingTree}
    old = os.getcwd()
    os.chdir(cwd)
    before = os.getcwd()
    pairs = []
    try:
        it = gf.changed_notebooks(conv.get(ra, ra), conv.get(rb, rb), paths or None)
        for k, (fa, fb) in enumerate(it):
            def rd(f):
                if isinstance(f, str):
                    return None if f == EXPLICIT_MISSING_FILE else ("PATH:" + f)
                try:
                    return f.read()
                finally:
                    try:
                        f.close()
                    except Exception:
                        pass
            pairs.append((rd(fa), rd(fb), getattr(fa, "name", fa), getattr(fb, "name", fb)))
            if abandon and k == 0:
                it.close()
                break
        after = os.getcwd()
    finally:
        os.chdir(old)
    return pairs, before, after


def run_shard(spec):
    from .. import nbd
    col = Collector(ID)
    r = random.Random(spec["seed"])
    d = os.path.join(os.environ.get("VMON_SCRATCH", "/tmp"), "c17-%s" % spec.get("shard", 0))
    os.makedirs(d, exist_ok=True)
    if "replay" in spec:
        col.inconc("C17 witnesses are repositories: replay by re-running the check with the same VERIF_SEED (case index in the witness)")
        return col.result()
    for ri in range(spec["repos"]):
        root = os.path.join(d, "repo%d" % ri)
        shutil.rmtree(root, ignore_errors=True)
        os.makedirs(root)
        repo = Repo(root, r)
        try:
            repo.build()
        except RuntimeError as e:
            col.inconc("git harness: %s" % e)
            continue
        if repo.unreachable:
            col.count("repos_with_tracked_notebook_unreachable:" + repo.unreachable)
        commits = r.sample(repo.commits, min(4, len(repo.commits)))
        refpairs = [(a, b) for a in commits for b in commits if a != b]
        r.shuffle(refpairs)
        refpairs = refpairs[:6] + [(c, nm) for c in commits[:2] for nm in getattr(repo, "colliding_refs", [])] + [(c, "INDEX") for c in commits[:2]] + [(c, "WORK") for c in commits[:3]] + [("INDEX", "WORK")] * 2 + [("HEAD", "WORK")] * 3
        dirs = [x for x in DIRS if os.path.isdir(os.path.join(root, x))]
        allfiles = repo.tracked_or_present()
        for ci in range(spec["cmp"]):
            ra, rb = r.choice(refpairs)
            sub = r.choice(dirs + [""])
            cwd = os.path.join(root, sub) if sub else root
            # filters are given relative to cwd, as a user would type them
            fmode = r.choice(["none", "none", "file", "dir", "two"])
            here = [os.path.relpath(os.path.join(root, f), cwd) for f in allfiles if not sub or f.startswith(sub + "/")]
            paths = []
            if fmode == "file" and here:
                paths = [r.choice(here)]
            elif fmode == "dir":
                sd = [x for x in dirs if x and (not sub or x.startswith(sub + "/"))]
                if sd:
                    paths = [os.path.relpath(os.path.join(root, r.choice(sd)), cwd)]
            elif fmode == "two" and len(here) >= 2:
                paths = r.sample(here, 2)
            paths_root = [os.path.normpath(os.path.join(sub, p)) for p in paths]
            if paths and r.random() < 0.3:
                # the same filters given as ABSOLUTE paths ($PWD/x.ipynb, a tool passing full names): git accepts them
                paths = [os.path.join(cwd, p) for p in paths]
                col.count("filters_given_as_absolute_paths")
            col.eval()
            wit = {"seed": spec["seed"], "repo_index": ri, "comparison": ci, "refs": [ra, rb], "cwd": sub or ".", "filters": paths,
                   "files": allfiles[:40]}
            try:
                exp = expected(repo, ra, rb, paths_root)
            except RuntimeError as e:
                col.count("git_cli_rejected_comparison")
                continue
            abandon = (ci % 9 == 8)
            try:
                pairs, before, after = observe(repo, ra, rb, cwd, paths, abandon=abandon)
            except Exception as e:
                key, tmpl = nbd.exc_key(e)
                col.violation("changed_notebooks-raised:%s|%s" % (key, tmpl[:40]), "%s refs=%s cwd=%s filters=%s" % (str(e)[:150], [ra, rb], sub, paths), wit, "no-exception")
                continue
            col.mon("cwd_restored")
            if before != after:
                col.violation("cwd-not-restored", "cwd before %r after %r (refs %s, %d entries%s)" % (
                    os.path.relpath(before, root), os.path.relpath(after, root) if after.startswith(root) else after, [ra, rb], len(pairs),
                    ", iterator abandoned" if abandon else ""), wit, "cwd")
            if not abandon:
                col.mon("pairs_vs_git")
                got = sorted((a or "<null>", b or "<null>") for a, b, an, bn in pairs)
                want = sorted((a or "<null>", b or "<null>") for a, b, ap, bp in exp)
                if got != want:
                    missing = len([x for x in want if x not in got])
                    extra = len([x for x in got if x not in want])
                    nullified = sum(1 for a, b, an, bn in pairs if b is None) - sum(1 for a, b, ap, bp in exp if b is None)
                    mech = "worktree-entries-read-as-deleted" if (rb == "WORK" and nullified > 0 and len(got) == len(want)) else "pairs-differ-from-git"
                    col.violation(mech, "refs=%s cwd=%s filters=%s: %d pairs yielded, %d expected, %d missing, %d unexpected" % (
                        [ra, rb], sub or ".", paths, len(got), len(want), missing, extra), wit, "pairs")
                nchanged = len(exp)
                if nchanged >= 1 and len(parse_total(repo, ra, rb, paths_root)) >= 2:
                    col.nt(chash(wit["files"], _refid(repo, ra), _refid(repo, rb), sub, paths, ri, spec["seed"]))
                    col.count("refs:%s/%s" % ("commit" if ra not in ("INDEX",) else "index", {"INDEX": "index", "WORK": "worktree"}.get(rb, "commit")))
                    if sub:
                        col.count("from_subdirectory")
                    if sub and rb == "WORK" and nchanged >= 2:
                        col.count("subdir_worktree_with_>=2_entries")
                    if any(ap != bp for a, b, ap, bp in exp):
                        col.count("with_renames")
                    if any(b is None for a, b, ap, bp in exp):
                        col.count("with_deletions")
                    if len(col.samples) < 2:
                        col.sample({"refs": [ra if len(ra) < 10 else ra[:8], rb if len(rb) < 10 else rb[:8]], "cwd": sub or ".", "filters": paths,
                                    "expected_pairs": [[ap if a is not None else None, bp if b is not None else None] for a, b, ap, bp in exp]})
        # CLI level
        for _ in range(spec["cli"]):
            ra = r.choice(commits + ["HEAD"])
            rb = r.choice(commits + ["WORK", "WORK"])
            if ra == rb:
                continue
            sub = r.choice(dirs + [""])
            cwd = os.path.join(root, sub) if sub else root
            argv = [ra] + ([rb] if rb != "WORK" else [])
            col.eval()
            env = dict(os.environ)
            p = subprocess.run([sys.executable, "-m", "vmon.launcher", "nbdiff", "--", "--no-color"] + argv, cwd=cwd, env=env, capture_output=True, timeout=300)
            out = p.stdout.decode("utf8", "replace")
            wit = {"seed": spec["seed"], "repo_index": ri, "cli": argv, "cwd": sub or "."}
            if p.returncode != 0:
                col.violation("nbdiff-gitrefs-nonzero-exit", "rc=%s argv=%s cwd=%s stderr=%s" % (p.returncode, argv, sub, p.stderr.decode(errors="replace")[-300:]), wit, "cli")
                continue
            col.mon("cli_headers")
            exp = expected(repo, ra if ra != "HEAD" else "HEAD", rb, [])
            nexp = sum(1 for a, b, ap, bp in exp if _json(a) != _json(b))
            heads = [l for l in out.splitlines() if l.startswith("nbdiff ")]
            if len(heads) != nexp:
                col.violation("nbdiff-gitrefs-header-count", "argv=%s cwd=%s: %d 'nbdiff a b' headers, %d changed notebooks expected" % (argv, sub or ".", len(heads), nexp), wit, "cli")
        shutil.rmtree(root, ignore_errors=True)
    for wi in range(3 if spec["repos"] <= 1 else 12):
        word_flip_case(col, r, os.path.join(d, "flip%d" % wi), spec, wi)
    return col.result()


def run_cli_inprocess(argv, cwd):
    """nbdiff's real main() in THIS process (a long-lived process calling it repeatedly, like the server or a test
    runner does); returns (status, stdout)"""
    import contextlib
    import io
    import nbdime.nbdiffapp as app
    from .. import nbd
    nbd.hygiene()
    old = os.getcwd()
    os.chdir(cwd)
    buf = io.StringIO()
    try:
        with contextlib.redirect_stdout(buf):
            try:
                status = app.main(["--no-color"] + argv)
            except SystemExit as e:
                status = e.code
    finally:
        os.chdir(old)
    return status, buf.getvalue()


def word_flip_case(col, r, root, spec, wi):
    """One word on the command line changes its meaning while the process lives: `HEAD~1` / a branch or tag name is
    no revision at first (nbdiff then reads it as a path filter) and becomes one after a commit / `git branch`; or
    the other way round.  Every invocation must examine what git reports for the interpretation valid THEN."""
    shutil.rmtree(root, ignore_errors=True)
    os.makedirs(root)
    repo = Repo(root, r)
    word = r.choice(["HEAD~1", "HEAD~1", "experiments", "v1.0", "drafts"])
    direction = "path-then-ref" if word == "HEAD~1" else r.choice(["path-then-ref", "path-then-ref", "ref-then-path"])
    try:
        repo.git("init", "-q", "-b", "main")
        repo.git("config", "core.autocrlf", "false")
        names = ["a.ipynb", "b.ipynb", "c.ipynb"][: r.choice([2, 3])]
        for nme in names:
            with open(os.path.join(root, nme), "w", encoding="utf8") as f:
                f.write(repo.new_nb())
        if not word.startswith("HEAD"):
            os.makedirs(os.path.join(root, word))
            with open(os.path.join(root, word, "inside.ipynb"), "w", encoding="utf8") as f:
                f.write(repo.new_nb())
        repo.git("add", "-A")
        repo.git("commit", "-q", "-m", "first")
        first = repo.git("rev-parse", "HEAD", text=True).strip()
        if not word.startswith("HEAD"):
            # the directory is gone from the work tree (an unstaged deletion): the word names no existing path
            shutil.rmtree(os.path.join(root, word))
        for nme in names[:2]:
            repo.edit(nme)

        def make_ref():
            if word.startswith("HEAD"):
                repo.git("add", "-A")
                repo.git("commit", "-q", "-m", "second")
                repo.edit(names[0])
            elif word.startswith("v"):
                repo.git("tag", word, first)
            else:
                repo.git("branch", word, first)

        def drop_ref():
            if word.startswith("v"):
                repo.git("tag", "-d", word)
            else:
                repo.git("branch", "-D", word)

        steps = [None, make_ref] if direction == "path-then-ref" else [make_ref, drop_ref]
        for si, action in enumerate(steps):
            if action:
                action()
            is_ref = subprocess.run(["git", "rev-parse", "--verify", "--quiet", word + "^{commit}"], cwd=root, env=repo.env, capture_output=True).returncode == 0
            col.eval()
            wit = {"seed": spec["seed"], "word": word, "direction": direction, "step": si, "word_is_revision_now": is_ref}
            exp = expected(repo, word, "WORK", []) if is_ref else expected(repo, "HEAD", "WORK", [word])
            nexp = sum(1 for a, b, ap, bp in exp if _json(a) != _json(b))
            try:
                status, out = run_cli_inprocess([word], root)
            except Exception as e:
                from .. import nbd
                key, tmpl = nbd.exc_key(e)
                col.violation("nbdiff-inprocess-raised:%s" % key, "%s word=%s step=%d" % (str(e)[:150], word, si), wit, "cli-sequence")
                continue
            col.mon("cli_sequence_in_one_process")
            heads = [l for l in out.splitlines() if l.startswith("nbdiff ")]
            if status not in (0, None):
                col.violation("nbdiff-gitrefs-nonzero-exit", "in-process, word=%s (revision now: %s) status=%s" % (word, is_ref, status), wit, "cli-sequence")
            elif len(heads) != nexp:
                col.violation("word-meaning-frozen-across-invocations", "`nbdiff %s` #%d in one process: %d notebooks examined, git reports %d for the %s reading valid now" % (
                    word, si + 1, len(heads), nexp, "revision" if is_ref else "path-filter"), wit, "cli-sequence")
            if nexp:
                col.count("cli_sequence_steps_with_changed_notebooks")
            col.count("cli_sequence:%s:%s" % (direction, "revision" if is_ref else "path"))
    except RuntimeError as e:
        col.inconc("git harness (word flip): %s" % e)
    finally:
        shutil.rmtree(root, ignore_errors=True)


def _refid(repo, ref):
    return repo.commits.index(ref) if ref in repo.commits else ref


def parse_total(repo, ra, rb, paths_root):
    args = ["diff", "--raw", "-z", "-M"]
    if ra == "INDEX" and rb == "WORK":
        pass
    elif rb == "INDEX":
        args += ["--cached", ra]
    elif rb == "WORK":
        args += [ra]
    else:
        args += [ra, rb]
    args += ["--"] + list(paths_root or [])
    return parse_raw(repo.git(*args))


def _json(s):
    if s is None:
        return None
    try:
        return canon(json.loads(s))
    except Exception:
        return s
