"""C10 use-base/use-local/use-remote equal resolving every open conflict to that side."""
import os
import random

from ..collect import Collector
from ..canon import chash, canon, to_plain, seq, first_difference
from .c07 import source_lines

ID = "C10"
LEVEL = "exploration"
RULE = ("C03 triple stream biased to conflicts (same line / output / metadata key, delete-vs-edit, concurrent inserts, multi-line string "
        "metadata). For S in {base, local, remote}: run merge_notebooks with --merge-strategy use-S (transients ignored or not) and, "
        "separately, the 'mergetool' run whose conflicted decisions are relabelled (action := S if S=base or the S-diff is non-empty, "
        "else base; conflict := false) and applied with apply_decisions (and with the independent applier as third opinion). "
        "Refuted by: a conflicted decision in the use-S run, merged(use-S) != applied relabelled decisions, or a non-blank merged source "
        "line absent from all three inputs. Split variant: --merge-strategy use-S1 --input-strategy use-S2 --output-strategy use-S3, "
        "expected side chosen by path category, judged only when every conflicted decision has an unambiguous category. "
        "Non-trivial: the mergetool run has >= 1 conflicted decision; distinct by hash of (triple, S, transients).")
FLOOR = {"quick": 1000, "thorough": 15000}
REQUIRED_MONITORS = ("equivalence", "no_conflict", "provenance")
ASSUMPTIONS = ["both sides of the comparison are produced by the real code from the same triple in the same process",
               "'resolve to S' for a decision whose S-diff is empty means keep base there"]
OPTIMIZED_SHARDS = (0,)
NSHARDS = 16
CONFLICT_CLASSES = ["same_line", "same_output", "same_meta_key", "del_vs_edit", "both_insert_similar", "both_insert_dissimilar",
                    "multi_line_meta", "same_attachment", "nbmeta_conflict", "out_meta_conflict", "both_append_outputs", "exec_count",
                    "random", "insert_near", "retype", "empty_source", "minor_diff", "both_rerun", "transient_meta_conflict",
                    "both_rerun", "same_frame_insert", "del_vs_transient"]


def plan(tier, seed):
    if tier == "quick":
        return [{"triples": 200, "timeout": 900} for i in range(NSHARDS)]
    return [{"triples": 1000, "timeout": 3000} for i in range(NSHARDS)]


def category(path):
    """'input' / 'output' / 'other' / None (ambiguous) for a decision's common_path"""
    p = list(path)
    if len(p) >= 3 and p[0] == "cells" and p[2] in ("source", "attachments"):
        return "input"
    if len(p) >= 3 and p[0] == "cells" and p[2] == "outputs":
        # output *metadata* follows --merge-strategy in the code and "outputs" in the CLI help: ambiguous
        if "metadata" in p[3:] or len(p) <= 3:
            return None
        return "output"
    if not p or p[0] != "cells":
        return "other"
    if len(p) >= 3 and p[0] == "cells":
        return "other"       # /cells/*/metadata, execution_count, ...
    return None               # /cells or /cells/* : the decision's diffs may span categories


def is_concatenation(line, allowed):
    """line is >= 2 non-empty input lines written one after the other (word-break DP)"""
    n = len(line)
    ok = [0] + [None] * n      # ok[i] = min number of pieces covering line[:i]
    for i in range(1, n + 1):
        for j in range(i):
            if ok[j] is not None and line[j:i] in allowed and line[j:i] != "":
                c = ok[j] + 1
                if ok[i] is None or c < ok[i]:
                    ok[i] = c
    return ok[n] is not None and ok[n] >= 2


def relabel(decisions, side_for):
    out = []
    for d in decisions:
        d = dict(d)
        if d.get("conflict"):
            s = side_for(d)
            if s is None:
                return None
            if s == "base":
                d["action"] = "base"
            else:
                d["action"] = s if d.get(s + "_diff") else "base"
            d["conflict"] = False
        out.append(d)
    return out


def judge(col, b, l, rm, cls, info, sides, tr, hygiene=True):
    """sides: {'merge': S1, 'input': S2|None, 'output': S3|None}"""
    from .. import nbd
    from ..gen_nb import to_node
    from ..workloads import merge_args
    from ..refapply import refapply, RefApplyError
    from .c09 import _md
    col.eval()
    cfg = {"merge": "use-" + sides["merge"], "input": ("use-" + sides["input"]) if sides["input"] else None,
           "output": ("use-" + sides["output"]) if sides["output"] else None, "ignore_transients": tr}
    mt = {"merge": "mergetool", "input": None, "output": None, "ignore_transients": tr}
    case = {"base": b, "local": l, "remote": rm, "class": cls, "info": info, "config": cfg}
    if hygiene:
        nbd.hygiene()
    try:
        merged, dec = nbd.merge_notebooks(to_node(b), to_node(l), to_node(rm), merge_args(cfg))
        if hygiene:
            nbd.hygiene()
        mmerged, mdec = nbd.merge_notebooks(to_node(b), to_node(l), to_node(rm), merge_args(mt))
    except Exception:
        col.count("merge_raised(C03's business)")
        return
    pm = to_plain(mdec)
    nconf = sum(1 for d in pm if d["conflict"])
    split = bool(sides["input"] or sides["output"])
    col.mon("no_conflict")
    left = [d for d in dec if d.get("conflict")]
    if left:
        col.violation("use-strategy-leaves-conflict", "%s leaves a conflicted decision at %r [class=%s]" % (
            cfg, list(left[0]["common_path"]), cls), case, "no-conflict")
    col.mon("provenance")
    allowed = source_lines(b) | source_lines(l) | source_lines(rm)
    fab = sorted(x for x in source_lines(merged) if x.strip() and x not in allowed)
    if fab:
        glued = is_concatenation(fab[0], allowed)
        col.violation("two-input-lines-glued-without-newline" if glued else "use-strategy-source-line-from-nowhere", "%s: merged source line %r is in none of the three inputs [class=%s]" % (
            cfg, fab[0][:100], cls), case, "provenance")

    def side_for(d):
        if not split:
            return sides["merge"]
        cat = category(d["common_path"])
        p_ = list(d["common_path"])
        if cat is None and len(p_) == 2 and p_[0] == "cells":
            # a decision on the cell object itself: categorised by the members its diffs name, when they agree
            keys = {e.get("key") for side in ("local_diff", "remote_diff") for e in (d.get(side) or [])}
            cats = {("input" if k in ("source", "attachments") else "output" if k == "outputs" else "other") for k in keys}
            if len(cats) == 1 and keys:
                cat = cats.pop()
                col.count("cell_level_decision_categorised_by_member")
        if cat is None:
            return None
        return {"input": sides["input"] or sides["merge"], "output": sides["output"] or sides["merge"], "other": sides["merge"]}[cat]
    rl = relabel(pm, side_for)
    if rl is None:
        col.count("split_variant_skipped_ambiguous_category")
        return
    try:
        expected = nbd.apply_decisions(to_node(b), [_md(x) for x in rl])
    except Exception as e:
        key, tmpl = nbd.exc_key(e)
        col.violation("relabelled-decisions-do-not-apply:%s" % key, str(e)[:200], case, "equivalence")
        return
    col.mon("equivalence")
    if not seq(merged, expected):
        col.violation("use-%s-differs-from-resolved-mergetool-decisions" % ("split" if split else "S"),
                      "%s: %s [class=%s]" % (cfg, first_difference(merged, expected), cls), case, "equivalence")
    try:
        third = refapply(b, rl)
        if not seq(third, expected):
            col.count("observation:refapply_differs_from_apply_decisions_on_relabelled")
    except RefApplyError:
        col.count("observation:refapply_failed_on_relabelled")
    if nconf:
        col.nt(chash(b, l, rm, cfg))
        col.count("class:" + cls)
        col.count("side:%s%s" % (sides["merge"], "+split" if split else ""))
        if len(col.samples) < 2 and nconf <= 3:
            col.sample({"class": cls, "config": cfg, "conflicted_mergetool_paths": [d["common_path"] for d in pm if d["conflict"]]})


def run_shard(spec):
    from .. import nbd
    from nbdime.utils import Strategies
    from ..gen_nb import NBGen
    from ..workloads import valid_triple
    col = Collector(ID)
    r = random.Random(spec["seed"])
    os.chdir(os.environ.get("VMON_SCRATCH", "/tmp"))
    if "replay" in spec:
        c = spec["replay"]["case"]
        cfg = c["config"]
        sides = {"merge": cfg["merge"][4:], "input": cfg["input"][4:] if cfg["input"] else None, "output": cfg["output"][4:] if cfg["output"] else None}
        judge(col, c["base"], c["local"], c["remote"], c.get("class", "replay"), c.get("info"), sides, cfg["ignore_transients"])
        return col.result()
    S = ["base", "local", "remote"]
    for k in range(spec["triples"]):
        gen = NBGen(r, exotic=False, crlf=False)
        cls, b, l, rm, info, waste = valid_triple(gen, cls=CONFLICT_CLASSES[k % len(CONFLICT_CLASSES)], plain_eol=True)
        if cls is None:
            continue
        if k % 7 == 3:
            # an earlier request of the same process FAILED inside the line merge and was caught (a server answers 500 and
            # goes on): the documented `fail` strategy raises there
            try:
                nbd.mg.decide_merge({"s": "a\nb\nc\n"}, {"s": "a\nB\nc\n"}, {"s": "a\nbb\nc\n"}, Strategies({"/s": "fail", "/s/*": "fail"}))
                col.inconc("the `fail` strategy did not raise: the caught-failure prelude observed nothing")
            except RuntimeError:
                col.count("earlier_merge_failed_and_was_caught")
        # transients ignored or not: drawn per triple (NOT from k's parity, which is tied to the class by the round robin)
        tr1 = r.random() < 0.5
        hyg = k % 7 != 3        # after a caught failure the process state is NOT tidied up by the harness
        for s in S:
            judge(col, b, l, rm, cls, info, {"merge": s, "input": None, "output": None}, tr=tr1, hygiene=hyg)
        judge(col, b, l, rm, cls, info, {"merge": r.choice(S), "input": r.choice(S + [None]), "output": r.choice(S + [None])}, tr=r.random() < 0.5, hygiene=hyg)
        if not hyg:
            nbd.hygiene()
    return col.result()
