"""C05 Merge obeys identity, one-sided adoption, agreement and side symmetry."""
import os
import random

from ..collect import Collector
from ..canon import chash, canon, to_plain, seq, first_difference
from .. import gen_json as G

ID = "C05"
LEVEL = "exploration"
RULE = ("laws on (b, X): merge(b,b,b)=b, merge(b,X,b)=X, merge(b,b,X)=X, merge(b,X,X)=X, all without any conflict flag - notebooks "
        "(b,X) from the C01 related-pair stream under default, mergetool, use-local, use-remote, use-base and one random strategy "
        "combination, transients on/off; generic JSON through decide_merge + apply_decisions exhaustively over lists<=2 of "
        "{0,1,'a',[0],{k:0}}, strings<=3 over {a,b,LF}, dicts over {a,b}x{0,1,[0],{k:0}}, lists<=2 over {1,true,1.0} and dicts over {a,b}x{1,true,1.0,[1],[true]} (value-type-only differences) (thorough: lists<=3 sampled). Symmetry on "
        "triples (b,l,r): merge(b,l,r) vs merge(b,r,l) must agree on 'any conflict?' and, both conflict-free, on the merged document; "
        "triples where both sides insert at one position (generator record, or a local_then_remote/remote_then_local action, or "
        "addranges on one key from both sides in some decision of either run) are excluded and counted. "
        "Non-trivial: X != b (laws), l != b != r != l and not excluded (symmetry); distinct by hash.")
FLOOR = {"quick": 8000, "thorough": 150000}
REQUIRED_MONITORS = ("laws_notebook", "laws_generic", "symmetry_notebook", "symmetry_generic")
ASSUMPTIONS = ["merge(b,X,X) may legitimately use 'either' decisions: only the conflict flag is judged",
               "merged notebooks are compared only when both runs are conflict-free (marker cells carry random ids)"]
OPTIMIZED_SHARDS = (0,)
NSHARDS = 16


def plan(tier, seed):
    if tier == "quick":
        return [{"i": i, "n": NSHARDS, "pairs": 45, "triples": 60, "list_n": 2, "timeout": 900} for i in range(NSHARDS)]
    return [{"i": i, "n": NSHARDS, "pairs": 700, "triples": 1200, "list_n": 3, "timeout": 3000} for i in range(NSHARDS)]


def both_insert_same_position(decisions):
    for d in decisions:
        la = {e["key"] for e in (d.get("local_diff") or []) if e.get("op") == "addrange"}
        ra = {e["key"] for e in (d.get("remote_diff") or []) if e.get("op") == "addrange"}
        if d.get("action") in ("local_then_remote", "remote_then_local") and la and ra:
            # an ordered combination counts as the exempted case only if BOTH sides actually insert something there
            return True
        if la & ra:
            return True
        if d.get("similar_insert") is not None:
            return True
    return False


def merge_generic(nbd, b, l, r):
    dec = nbd.decide_merge(b, l, r)
    m = nbd.apply_decisions(b, dec)
    return m, dec


def law_cases(b, x):
    return [("identity", b, b, b, b), ("one-sided-local", b, x, b, x), ("one-sided-remote", b, b, x, x), ("agreement", b, x, x, x)]


def check_laws(col, merge, b, x, tag, cfgname, case):
    from ..oracles import numeric_only
    for law, bb, ll, rr, want in law_cases(b, x):
        try:
            m, dec = merge(bb, ll, rr)
        except Exception as e:
            from .. import nbd
            key, tmpl = nbd.exc_key(e)
            col.violation("law-merge-raised:%s" % key, "%s %s: %s" % (law, cfgname, str(e)[:150]), dict(case, law=law), "no-exception")
            continue
        col.mon("laws_" + tag)
        col.count("law:%s" % law)
        if any(d.get("conflict") for d in dec):
            col.violation("law-%s-reports-conflict" % law, "%s under %s reports a conflict" % (law, cfgname), dict(case, law=law), "no-conflict")
        if not seq(m, want):
            mech = "numeric-type-only" if numeric_only(want, m) else "law-%s-wrong-result" % law
            col.violation(mech, "%s under %s: %s" % (law, cfgname, first_difference(m, want)), dict(case, law=law), "result")


def check_symmetry(col, merge, b, l, r, tag, cfgname, case, gen_excluded=False):
    from ..oracles import numeric_only
    try:
        m1, d1 = merge(b, l, r)
        m2, d2 = merge(b, r, l)
    except Exception:
        col.count("symmetry_merge_raised(C03's business)")
        return
    if gen_excluded or both_insert_same_position(to_plain(d1)) or both_insert_same_position(to_plain(d2)):
        col.count("symmetry_excluded_same_position_inserts:" + tag)
        return
    col.mon("symmetry_" + tag)
    c1 = any(d.get("conflict") for d in d1)
    c2 = any(d.get("conflict") for d in d2)
    if c1:
        col.count("symmetry_judged_conflicted:" + tag)
    if c1 != c2:
        col.violation("symmetry-conflict-verdict-differs", "%s: conflict(b,l,r)=%s conflict(b,r,l)=%s" % (cfgname, c1, c2), case, "verdict")
    elif not c1 and not seq(m1, m2):
        mech = "numeric-type-only" if numeric_only(m1, m2) else "symmetry-merged-differs"
        col.violation(mech, "%s: %s" % (cfgname, first_difference(m1, m2)), case, "merged")
    if canon(l) != canon(b) and canon(r) != canon(b) and canon(l) != canon(r):
        col.nt(chash("sym", tag, b, l, r, cfgname))


def run_shard(spec):
    from .. import nbd
    from ..gen_nb import NBGen, to_node
    from ..workloads import valid_pair, valid_triple, merge_args, all_merge_configs
    col = Collector(ID)
    r = random.Random(spec["seed"])
    os.chdir(os.environ.get("VMON_SCRATCH", "/tmp"))

    from .. import env
    paths = env.make_path_variants(os.path.join(os.environ.get("VMON_SCRATCH", "/tmp"), "paths-%s" % spec.get("shard", 0)))

    def nbmerge(cfg, variant="full"):
        def f(b, l, rr):
            nbd.hygiene()
            os.environ["PATH"] = paths[variant]
            try:
                if cfg.get("merge") == "union":
                    # documented strategy that the command line does not offer: library callers set it on the options
                    args_ = merge_args(dict(cfg, merge="inline"))
                    args_.merge_strategy = "union"
                else:
                    args_ = merge_args(cfg)
                return nbd.merge_notebooks(to_node(b), to_node(l), to_node(rr), args_)
            finally:
                os.environ["PATH"] = paths["full"]
        return f

    def gmerge(b, l, rr):
        return merge_generic(nbd, b, l, rr)

    if "replay" in spec:
        c = spec["replay"]["case"]
        if "x" in c:
            if c.get("generic"):
                check_laws(col, gmerge, c["b"], c["x"], "generic", "generic", c)
            else:
                check_laws(col, nbmerge(c["config"]), c["b"], c["x"], "notebook", str(c["config"]), c)
        else:
            if c.get("generic"):
                check_symmetry(col, gmerge, c["b"], c["l"], c["r"], "generic", "generic", c)
            else:
                check_symmetry(col, nbmerge(c["config"], c.get("path_variant", "full")), c["b"], c["l"], c["r"], "notebook", str(c["config"]), c)
        return col.result()

    i, n = spec["i"], spec["n"]
    base_cfgs = [{"merge": m, "input": None, "output": None, "ignore_transients": True} for m in
                 ("inline", "mergetool", "use-local", "use-remote", "use-base", "union")]
    allc = all_merge_configs()
    # ---- notebooks: laws
    for k in range(spec["pairs"]):
        gen = NBGen(r, exotic=(k % 4 == 0))
        cls, b, x, rec, waste = valid_pair(gen, cls=r.choice(["related", "related", "fixture_mut", "meta_types", "move_dup", "attachments", "output_kinds", "separators", "minor_change"]))
        if cls is None:
            continue
        cfgs = base_cfgs + [r.choice(allc)]
        cfgs = [dict(c, ignore_transients=(r.random() < 0.7)) for c in cfgs]
        for cfg in cfgs:
            col.eval()
            check_laws(col, nbmerge(cfg), b, x, "notebook", "merge=%(merge)s,input=%(input)s,output=%(output)s,tr=%(ignore_transients)s" % cfg,
                       {"b": b, "x": x, "config": cfg, "class": cls, "record": rec})
        if canon(b) != canon(x):
            col.nt(chash("law", b, x))
            if len(col.samples) < 1:
                col.sample({"law_pair_class": cls, "record": rec, "configs": [c["merge"] for c in cfgs]})
    # ---- notebooks: symmetry
    for k in range(spec["triples"]):
        gen = NBGen(r, exotic=(k % 5 == 0))
        cls, b, l, rm, info, waste = valid_triple(gen)
        if cls is None:
            continue
        excl = cls in ("both_insert_similar", "both_insert_dissimilar", "insert_near", "both_append_outputs", "both_insert_lists")
        if k % 5 == 0 and b["cells"]:
            # both sides edit DIFFERENT lines of one cell, the final newline differs between the sides: clean text merge
            # whose outcome must not depend on the roles (nor on the helper that renders it)
            import copy as _copy
            lines = ["disjoint edit line %d value %d" % (j, r.randrange(1000)) for j in range(6)]
            bb, ll_, rr_ = _copy.deepcopy(b), _copy.deepcopy(b), _copy.deepcopy(b)
            fin = [r.choice(["", "\n"]) for _ in range(3)]
            la, ra = list(lines), list(lines)
            la[1] += " # local"
            ra[4] += " # remote"
            bb["cells"][0]["source"] = "\n".join(lines) + fin[0]
            ll_["cells"][0]["source"] = "\n".join(la) + fin[1]
            rr_["cells"][0]["source"] = "\n".join(ra) + fin[2]
            b, l, rm, cls, excl = bb, ll_, rr_, "disjoint_lines_one_cell", False
        variant = ("full", "diffonly", "bare")[k % 3]
        for cfg in base_cfgs[:2]:
            col.eval()
            col.count("symmetry_renderer:" + variant)
            check_symmetry(col, nbmerge(cfg, variant), b, l, rm, "notebook", cfg["merge"] + "@" + variant,
                           {"b": b, "l": l, "r": rm, "config": cfg, "class": cls, "info": info, "path_variant": variant}, gen_excluded=excl)
    # ---- generic: exhaustive
    alpha = [0, 1, "a", [0], {"k": 0}]
    spaces = [("lists", list(G.lists_upto(2, alpha))), ("strings", list(G.strings_upto(3, ["a", "b", "\n"]))),
              ("dicts", list(G.dicts_over(("a", "b"), [0, 1, [0], {"k": 0}]))),
              ("typed-lists", list(G.lists_upto(2, [1, True, 1.0]))),
              ("typed-dicts", list(G.dicts_over(("a", "b"), [1, True, 1.0, [1], [True]])))]
    cnt = 0
    for name, S in spaces:
        for b in S:
            for x in S:
                cnt += 1
                if cnt % n != i:
                    continue
                col.eval()
                check_laws(col, gmerge, b, x, "generic", "generic:" + name, {"b": b, "x": x, "generic": True})
                if canon(b) != canon(x):
                    col.nt_enum()
        for b in S:
            for l in S:
                for rr in S:
                    cnt += 1
                    if cnt % n != i:
                        continue
                    if name == "strings" and (cnt // n) % 4 != 0:
                        continue
                    col.eval()
                    check_symmetry(col, gmerge, b, l, rr, "generic", "generic:" + name, {"b": b, "l": l, "r": rr, "generic": True})
    # line-wise text merges, exhaustively: a 3-line text; each side deletes / rewrites beyond recognition / extends /
    # prefixes one line or inserts a line - every ordered pair of such edits, the text as a document of its own and as a
    # member of an object (shard 0 only: 2 x 16 x 16 triples)
    if i == 0:
        lines = ["alpha one\n", "beta two\n", "gamma three\n"]
        edits = [None]
        for k_ in range(3):
            edits += [("del", k_), ("rewrite", k_), ("extend", k_), ("prefix", k_), ("insert", k_)]
        def apply_edit(e):
            ls = list(lines)
            if e is None:
                return "".join(ls)
            how, k_ = e
            if how == "del":
                del ls[k_]
            elif how == "rewrite":
                ls[k_] = "SOMETHING ELSE %d\n" % k_
            elif how == "extend":
                ls[k_] = ls[k_].rstrip("\n") + " more\n"
            elif how == "prefix":
                ls[k_] = "# " + ls[k_]
            else:
                ls.insert(k_, "inserted %d\n" % k_)
            return "".join(ls)
        for wrap in (lambda t: t, lambda t: {"s": t, "n": 1}):
            for e1 in edits:
                for e2 in edits:
                    col.eval()
                    b_, l_, r_ = wrap("".join(lines)), wrap(apply_edit(e1)), wrap(apply_edit(e2))
                    both_insert = e1 is not None and e2 is not None and e1[0] == "insert" and e2[0] == "insert" and e1[1] == e2[1]
                    check_symmetry(col, gmerge, b_, l_, r_, "generic", "generic:text-lines", {"b": b_, "l": l_, "r": r_, "generic": True}, gen_excluded=both_insert)
                    col.nt_enum()
            for e1 in edits:
                col.eval()
                check_laws(col, gmerge, wrap("".join(lines)), wrap(apply_edit(e1)), "generic", "generic:text-lines", {"b": wrap("".join(lines)), "x": wrap(apply_edit(e1)), "generic": True})
    # long documents (257-700 items / keys / lines): laws, and symmetry of two independent edit scripts of one base
    from .c02 import long_base, long_edit
    for _ in range(12 if spec["list_n"] < 3 else 150):
        b, kind = long_base(r)
        l, rr = long_edit(r, b, kind), long_edit(r, b, kind)
        col.eval()
        check_laws(col, gmerge, b, l, "generic", "generic:long-" + kind, {"b": b, "x": l, "generic": True})
        check_symmetry(col, gmerge, b, l, rr, "generic", "generic:long-" + kind, {"b": b, "l": l, "r": rr, "generic": True})
        col.count("generic:long")
    if spec["list_n"] >= 3:
        S = list(G.lists_upto(3, alpha))
        for _ in range(20000):
            b, l, rr = r.choice(S), r.choice(S), r.choice(S)
            col.eval()
            check_symmetry(col, gmerge, b, l, rr, "generic", "generic:lists<=3", {"b": b, "l": l, "r": rr, "generic": True})
            check_laws(col, gmerge, b, l, "generic", "generic:lists<=3", {"b": b, "x": l, "generic": True})
    return col.result()
