"""C15 Browser-side patch and decision application agree with the Python side."""
import glob
import json
import os
import random
import subprocess

from ..collect import Collector
from ..canon import chash, canon, to_plain, intfloatnorm, first_difference
from .. import env
from .. import gen_json as G

ID = "C15"
LEVEL = "translation_validation"
RULE = ("programs = (base, diff) pairs produced by the Python differ (C01 notebook pair stream incl. every line separator str.splitlines "
        "recognises, C02 random generic pairs) and (base, decisions) lists produced by the Python merger under 'mergetool' (what /api/merge "
        "sends; incl. 3-way different nbformat_minor and execution-count conflicts). Each program is run through both implementations: "
        "Python patch / apply_decisions and the REAL TypeScript sources packages/nbdime/src/{patch,merge/decisions}.ts executed by Node >= 22.13 "
        "(built-in type stripping + an ESM loader that resolves .ts and elides type-only imports). Compared type-strictly after mapping "
        "integral floats to ints (one JSON number type in JavaScript): TS patch == Python patch; new MergeDecision(d) accepts every action; "
        "TS applyDecisions == Python apply_decisions. (buildDiffs/build_diffs, a helper both sides carry, is compared as well but only counted as an observation: the property names patch and decision application.) "
        "Non-trivial: diff with a string-level patch or >= 2 ops; decision list with >= 2 decisions; distinct by hash.")
FLOOR = {"quick": 1200, "thorough": 20000}
REQUIRED_MONITORS = ("ts_patch", "ts_decisions")
ASSUMPTIONS = ["Node >= 22.13 is present on the image (searched in $VERIF_NODE, /root/.nvm/versions/node/*/bin/node, PATH); otherwise the check is inconclusive",
               "stubs replace only JSONExt.deepCopy/deepEqual (@lumino/coreutils) and the display stringifier (json-stable-stringify)",
               "a 1.0 / 1 difference is not observable in JavaScript and is not judged", "keys such as __proto__ are not generated"]
NSHARDS = 16


def plan(tier, seed):
    if tier == "quick":
        return [{"pairs": 120, "generic": 150, "triples": 40, "timeout": 900} for i in range(NSHARDS)]
    return [{"pairs": 2000, "generic": 2500, "triples": 600, "timeout": 3000} for i in range(NSHARDS)]


def find_node():
    cands = []
    if os.environ.get("VERIF_NODE"):
        cands.append(os.environ["VERIF_NODE"])
    def ver(p):
        import re
        m = re.search(r"/v(\d+)\.(\d+)\.(\d+)/", p)
        return tuple(int(x) for x in m.groups()) if m else (0, 0, 0)
    cands += sorted(glob.glob("/root/.nvm/versions/node/*/bin/node"), key=ver, reverse=True)
    import shutil
    w = shutil.which("node")
    if w:
        cands.append(w)
    for c in cands:
        try:
            out = subprocess.run([c, "-e", "const m=require('node:module');process.stdout.write(String(typeof m.stripTypeScriptTypes))"],
                                 capture_output=True, timeout=30).stdout.decode()
            if out.strip() == "function":
                return c
        except Exception:
            continue
    return None


def has_string_patch(d, base):
    for e in d:
        if e.get("op") == "patch":
            try:
                sub = base[e["key"]]
            except Exception:
                return False
            if isinstance(sub, str):
                return True
            if has_string_patch(e["diff"], sub):
                return True
    return False


EXOTIC = set("\x0b\x0c\x1c\x1d\x1e\x85\u2028\u2029")


def _strings(x):
    if isinstance(x, str):
        yield x
    elif isinstance(x, dict):
        for k, v in x.items():
            yield k
            yield from _strings(v)
    elif isinstance(x, (list, tuple)):
        for v in x:
            yield from _strings(v)


def exotic_in(x):
    """some string holds a line separator that str.splitlines knows and the TS /^.*(\\r\\n|\\r|\\n|$)/gm does not"""
    return any(EXOTIC & set(s) for s in _strings(x))


def astral_in(x):
    """some string holds a character outside the BMP (two UTF-16 code units in JavaScript, one code point in Python)"""
    return any(any(ord(ch) > 0xFFFF for ch in s) for s in _strings(x))


def run_shard(spec):
    from .. import nbd
    from ..gen_nb import NBGen, to_node
    from ..workloads import valid_pair, valid_triple, merge_args
    col = Collector(ID)
    r = random.Random(spec["seed"])
    tmp = os.path.join(os.environ.get("VMON_SCRATCH", "/tmp"), "c15-%s" % spec.get("shard", 0))
    os.makedirs(tmp, exist_ok=True)
    os.chdir(tmp)
    node = find_node()
    if node is None:
        col.inconc("no Node >= 22.13 with module.stripTypeScriptTypes found")
        return col.result()
    cases, expect = [], {}

    def add_patch(base, d, want, origin, meta):
        cid = len(cases)
        cases.append({"id": cid, "kind": "patch", "base": base, "diff": d})
        expect[cid] = {"kind": "patch", "want": want, "origin": origin, "meta": meta}

    if "replay" in spec:
        c = spec["replay"]["case"]
        if c["kind"] == "patch":
            add_patch(c["base"], c["diff"], c["want"], "replay", {})
        else:
            cid = 0
            cases.append({"id": 0, "kind": "decisions", "base": c["base"], "decisions": c["decisions"]})
            expect[0] = {"kind": "decisions", "applied": c["applied"], "local": c["local"], "remote": c["remote"], "meta": {}}
    else:
        for k in range(spec["pairs"]):
            gen = NBGen(r, exotic=(k % 2 == 0))
            cls, a, b, rec, waste = valid_pair(gen, cls=("separators" if k % 6 == 0 else None))
            if cls is None:
                continue
            nbd.hygiene()
            try:
                d = nbd.diff_notebooks(to_node(a), to_node(b))
                p = nbd.patch_notebook(to_node(a), d)
            except Exception:
                continue
            add_patch(a, to_plain(d), to_plain(p), "notebook", {"class": cls})
        for _ in range(spec["generic"]):
            a = G.rand_value(r)
            if not isinstance(a, (dict, list, str)):
                continue
            b = G.rand_edit(r, a)
            if beyond_js_integers(a) or beyond_js_integers(b):
                # JSON leaves the range of exactly representable integers to the implementation: JavaScript has doubles
                # only (2**53 + 1 does not exist there) - not a difference between nbdime's two implementations
                col.count("generic_pairs_with_integers_beyond_2**53_not_sent_to_the_browser_side")
                continue
            try:
                d = nbd.diff(a, b)
                p = nbd.patch(a, d)
            except Exception:
                continue
            add_patch(a, to_plain(d), to_plain(p), "generic", {})
        for k in range(spec["triples"]):
            gen = NBGen(r, exotic=(k % 3 == 0))
            cls = ["minor_diff", "exec_count", None, "same_insert_edit_below", "same_line", None][k % 6]
            if k % 12 == 2:
                # the classes whose decisions use the path-relative actions (clear / remove / take_max / clear_all)
                cls = r.choice(["retype", "both_rerun", "transient_meta_conflict", "both_rerun", "retype", "slash_keys", "slash_keys"])
            cls, b, l, rm, info, waste = valid_triple(gen, cls=cls, minor=(5 if (k % 6 == 5 or cls == "retype") else None))
            if cls is None:
                continue
            if k % 6 == 5 and b["cells"]:
                # both sides give the same cell another id: the '/cells/*/id' strategy is 'remove'
                import copy
                l, rm = copy.deepcopy(b), copy.deepcopy(b)
                l["cells"][0]["id"] = gen.new_id()
                rm["cells"][0]["id"] = gen.new_id()
                cls = "both_change_id"
            cfg = {"merge": "mergetool", "input": None, "output": None, "ignore_transients": r.random() < 0.7}
            nbd.hygiene()
            try:
                merged, dec = nbd.merge_notebooks(to_node(b), to_node(l), to_node(rm), merge_args(cfg))
            except Exception:
                continue
            cid = len(cases)
            cases.append({"id": cid, "kind": "decisions", "base": b, "decisions": to_plain(dec)})
            py_bd = {}
            from nbdime.merging.decisions import build_diffs
            nb_ = to_node(b)
            for which in ("local", "remote", "merged"):
                try:
                    bd = build_diffs(nb_, dec, which)
                    py_bd[which] = to_plain(nbd.patch(nb_, bd)) if bd else b
                except Exception as e:
                    py_bd[which] = {"__python_error__": "%s: %s" % (type(e).__name__, str(e)[:100])}
            expect[cid] = {"kind": "decisions", "applied": to_plain(merged), "local": l, "remote": rm, "py_build_diffs": py_bd,
                           "meta": {"class": cls, "config": cfg}}
    cf, rf = os.path.join(tmp, "cases.jsonl"), os.path.join(tmp, "results.jsonl")
    with open(cf, "w") as f:
        for c in cases:
            f.write(json.dumps(c) + "\n")
    tsdir = os.path.join(env.VERIF, "vmon", "ts")
    p = subprocess.run([node, "--no-warnings", "--import", os.path.join(tsdir, "register.mjs"), os.path.join(tsdir, "bridge.mjs"), env.REPO, cf, rf],
                       capture_output=True, timeout=1200)
    if p.returncode != 0 or not os.path.exists(rf):
        col.inconc("node bridge failed rc=%s: %s" % (p.returncode, p.stderr.decode(errors="replace")[-400:]))
        return col.result()
    results = {}
    with open(rf) as f:
        for line in f:
            if line.strip():
                res = json.loads(line)
                results[res["id"]] = res
    col.count("programs", len(cases))
    for c in cases:
        cid = c["id"]
        ex = expect[cid]
        res = results.get(cid)
        col.eval()
        if res is None:
            col.inconc("no result for case %d" % cid)
            continue
        exo = exotic_in(c["base"]) or exotic_in(c.get("diff")) or exotic_in(c.get("decisions"))
        ast = astral_in(c["base"]) or astral_in(c.get("diff")) or astral_in(c.get("decisions"))
        if ex["kind"] == "patch":
            col.mon("ts_patch")
            wit = {"kind": "patch", "base": c["base"], "diff": c["diff"], "want": ex["want"], "origin": ex["origin"]}
            if "error" in res:
                col.violation(classify_patch_error(res["error"], exo or ast and "astral"), "TS patch threw %r on a Python-produced %s diff" % (res["error"][:150], ex["origin"]), wit, "ts-patch")
            elif canon(intfloatnorm(res["patched"])) != canon(intfloatnorm(ex["want"])):
                mech = "ts-splitlines-ignores-unicode-separators" if exo else ("ts-utf16-offsets-vs-python-codepoints" if ast else "ts-patch-result-differs")
                col.violation(mech, "TS patch != Python patch (%s): %s" % (ex["origin"], first_difference(intfloatnorm(res["patched"]), intfloatnorm(ex["want"]))), wit, "ts-patch")
            elif "patched2_error" in res or canon(res.get("patched2")) != canon(res["patched"]):
                col.violation("ts-second-application-differs:patch", "the same diff object patched twice: %s" % (res.get("patched2_error") or first_difference(res.get("patched2"), res["patched"])), wit, "ts-patch-repeat")
            else:
                col.mon("ts_repeat_application")
            if res.get("inputs_changed"):
                col.count("observation:ts_patch_changed_its_input_objects")
            if len(c["diff"]) >= 2 or has_string_patch(c["diff"], c["base"]):
                col.nt(chash(c["base"], c["diff"]))
                col.count("origin:" + ex["origin"])
                if exo:
                    col.count("with_unicode_line_separators")
        else:
            col.mon("ts_decisions")
            wit = {"kind": "decisions", "base": c["base"], "decisions": c["decisions"], "applied": ex["applied"], "local": ex["local"], "remote": ex["remote"]}
            if "error" in res:
                err = res["error"]
                if err.startswith("Invalid merge decision action: "):
                    col.violation("ts-rejects-action:%s" % err.split(": ")[1].strip(), "new MergeDecision() threw %r" % err, wit, "ts-actions")
                else:
                    col.violation(classify_patch_error(err, exo, "applyDecisions"), "TS applyDecisions threw %r" % err[:150], wit, "ts-apply")
            else:
                if canon(intfloatnorm(res["applied"])) != canon(intfloatnorm(ex["applied"])):
                    mech = "ts-splitlines-ignores-unicode-separators" if exo else ("ts-utf16-offsets-vs-python-codepoints" if ast else "ts-applyDecisions-differs")
                    col.violation(mech, "TS applyDecisions != Python apply_decisions: %s" % first_difference(intfloatnorm(res["applied"]), intfloatnorm(ex["applied"])), wit, "ts-apply")
                elif "applied2_error" in res or canon(res.get("applied2")) != canon(res["applied"]) or canon(res.get("applied3")) != canon(res["applied"]):
                    # Python's apply_decisions gives the same notebook however often it is called on one decision
                    # list (C13 / C09 watch that side); the browser re-applies the same objects on every save
                    col.violation("ts-second-application-differs:applyDecisions", "same MergeDecision objects applied again: %s" % (
                        res.get("applied2_error") or first_difference(res.get("applied3"), res["applied"])), wit, "ts-apply-repeat")
                else:
                    col.mon("ts_repeat_application")
                if res.get("inputs_changed"):
                    col.count("observation:ts_applyDecisions_changed_its_input_objects")
                # buildDiffs: the counterpart is Python's build_diffs (same algorithm on both sides); whether either
                # reproduces local/remote is recorded as an observation only
                for which, truth in (("local", ex["local"]), ("remote", ex["remote"]), ("merged", ex["applied"])):
                    py = ex.get("py_build_diffs", {}).get(which)
                    if py is None:
                        continue
                    py_err = isinstance(py, dict) and "__python_error__" in py
                    ts_err = which + "_error" in res
                    if py_err and ts_err:
                        col.count("observation:build_diffs_fails_in_both_languages")
                        continue
                    if py_err != ts_err:
                        col.count("observation:build_diffs_%s_%s" % (which, "ts_throws_python_ok" if ts_err else "python_raises_ts_ok"))
                        continue
                    if canon(intfloatnorm(res[which])) != canon(intfloatnorm(py)):
                        col.count("observation:build_diffs_%s_ts_differs_from_python" % which)
                    if canon(intfloatnorm(py)) != canon(intfloatnorm(truth)):
                        col.count("observation:build_diffs_%s_does_not_reproduce_%s(both languages)" % (which, which))
            for d in c["decisions"]:
                col.count("action:" + str(d.get("action")))
            if len(c["decisions"]) >= 2:
                col.nt(chash(c["base"], c["decisions"]))
    if len(col.samples) < 2 and cases:
        c = cases[0]
        col.sample({"kind": c["kind"], "diff_or_decisions_head": json.dumps(c.get("diff") or c.get("decisions"))[:500], "node": node})
    return col.result()


def beyond_js_integers(x):
    if isinstance(x, bool):
        return False
    if isinstance(x, int):
        return abs(x) > 2 ** 53
    if isinstance(x, float):
        return abs(x) >= 2 ** 53 and x == int(x) and False
    if isinstance(x, dict):
        return any(beyond_js_integers(v) for v in x.values())
    if isinstance(x, list):
        return any(beyond_js_integers(v) for v in x)
    return False


def classify_patch_error(err, exo, where="patch"):
    import re
    tmpl = re.sub(r"'[^']*'|\"[^\"]*\"|\d+", "#", err)[:50]
    if exo == "astral":
        return "ts-utf16-offsets-vs-python-codepoints"
    if exo:
        return "ts-splitlines-ignores-unicode-separators"
    return "ts-%s-threw:%s" % (where, tmpl)


def extra_coverage(agg, tier):
    return {"programs": agg["counters"].get("programs", 0),
            "disagreements_checked": agg["monitors"].get("ts_patch", 0) + agg["monitors"].get("ts_decisions", 0)}
