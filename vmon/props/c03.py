"""C03 Three-way merge always completes for valid notebooks under every strategy.
(C04 re-uses this stream with the schema oracle switched on.)"""
import os
import re
import random

from ..collect import Collector
from ..canon import chash, canon, to_plain
from .. import env

ID = "C03"
LEVEL = "exploration"
RULE = ("triples (base, local, remote) of schema-valid notebooks: base from G-NB (minor 0-5), two independent edit scripts or a "
        "targeted hard interleaving (delete-vs-edit, inserts next to edited/deleted cells, similar/dissimilar concurrent inserts, "
        "same attachment / metadata key / output / source line on both sides, 3-way different minor, retype, empty sources, both "
        "append outputs, execution-count-only conflicts), merged under configurations drawn from the 4x5x7x2 CLI combinations "
        "(args built by the real nbmerge parser) + mergetool, x PATH variant (git merge-file / diff3 / built-in). "
        "Non-trivial: local != base != remote != local and >= 1 decision; distinct by hash of (triple, configuration, PATH variant).")
FLOOR = {"quick": 5000, "thorough": 30000}
REQUIRED_MONITORS = ("merge_returned",)
ASSUMPTIONS = ["inputs valid by jsonschema self-check against nbformat's per-minor schema",
               "ERROR-level log lines are not failures: the property is about returning, not log silence",
               "per-call watchdog: none needed in-process, shard watchdog expiry is inconclusive"]
NSHARDS = 16
SCHEMA = False


def plan(tier, seed):
    if tier == "quick":
        return [{"i": i, "triples": 160, "cfgs": 8, "full_every": 0, "timeout": 900} for i in range(NSHARDS)]
    return [{"i": i, "triples": 420, "cfgs": 12, "full_every": 40, "timeout": 3000} for i in range(NSHARDS)]


def classify_exc(key, tmpl, msg=""):
    """mechanism = exception type @ innermost nbdime frame [source line] | message template, plus -- where the
    template hides the one thing that tells two root causes apart -- the KIND of dict key named by the message
    (a LOCAL_/REMOTE_ conflict-attachment name vs. any other key), never the key itself."""
    mech = "exception:%s|%s" % (key, tmpl[:50])
    m = re.search(r"(?:same key|deleted key|for key|key): '([^']*)'", msg)
    if m and "patch_dict" in key:
        mech += "[conflict-attachment-name]" if m.group(1).startswith(("LOCAL_", "REMOTE_")) else "[other-key]"
    return mech


def classify_schema(err_key, mixed_minor, cls, info):
    """Known-finding classifiers for C04, by root cause (never by message or value):
    * mixed-minor-cell-ids: the three inputs declare different minor versions and the only
      complaint is presence/absence of cell ids (merged minor is the max, cells come from all sides);
    * retype-keeps-foreign-fields: one side changed a cell's type and the merged cell carries or
      lacks code-only / non-code-only fields (outputs, execution_count, attachments);
    * metadata-tags-duplicated-by-list-merge: both sides add the same tag, the list merge keeps both."""
    parts = err_key.split("|")
    if err_key == "/cells/*/metadata/tags:uniqueItems":
        return "metadata-tags-duplicated-by-list-merge"
    if mixed_minor and all(p in ("/cells/*:additionalProperties:id", "/cells/*:required:id") for p in parts):
        if info and info.get("_declared_is_max") is False:
            # the known finding is about a merged notebook that declares what the documented rule gives (the changed side's
            # minor; the HIGHEST when both sides changed it differently: take-max) while its cells come from all sides; a
            # merged notebook that declares less than the highest although both sides changed the minor is something else
            return "declared-minor-is-not-the-highest-of-the-three"
        return "mixed-minor-cell-ids"
    retyped = bool(info and info.get("_retyped"))
    if retyped and all(_retype_part(p) for p in parts):
        return "retype-keeps-foreign-fields"
    return "schema:%s%s" % (err_key, ":mixed-minor" if mixed_minor else "")


def retyped_by_id(b, l, rm):
    """some base cell (matched by id) has another cell_type on one side"""
    bt = {c["id"]: c["cell_type"] for c in b["cells"] if "id" in c}
    for side in (l, rm):
        for c in side["cells"]:
            if c.get("id") in bt and bt[c["id"]] != c["cell_type"]:
                return True
    return False


def _retype_part(p):
    for pre in ("/cells/*:additionalProperties:", "/cells/*:required:"):
        if p.startswith(pre):
            return set(p[len(pre):].split(",")) <= {"outputs", "execution_count", "attachments"}
    return False


def merge_case(col, paths, cls, b, l, rm, info, cfg, variant, schema, prop):
    """Run one real merge; M-NOEXC and (for C04) the schema oracle."""
    from .. import nbd
    from ..gen_nb import to_node, validate_nb, error_key
    from ..workloads import merge_args
    col.eval()
    nbd.hygiene()
    os.environ["PATH"] = paths[variant]
    if variant == "full" and "git_styles" in paths:
        col.count("git_conflictstyle:" + env.rotate_git_style(paths["git_styles"]))
    case = {"base": b, "local": l, "remote": rm, "class": cls, "info": info, "config": cfg, "path_variant": variant}
    args = merge_args(cfg)
    col.count("renderer:" + variant)
    col.count("config:merge=%s" % cfg["merge"])
    try:
        if col.evaluations % 5 == 3:
            # every fifth merge is called from a non-main thread (the library having been imported by the main one)
            merged, decisions = nbd.call_in_thread(nbd.merge_notebooks, to_node(b), to_node(l), to_node(rm), args)
            col.count("merges_called_from_a_worker_thread")
        else:
            merged, decisions = nbd.merge_notebooks(to_node(b), to_node(l), to_node(rm), args)
    except Exception as e:
        key, tmpl = nbd.exc_key(e)
        col.count("merge_raised")
        if prop == "C03":
            col.violation(classify_exc(key, tmpl, str(e)), "%s: %s [class=%s cfg=%s]" % (key, str(e)[:160], cls, cfg), case, "returns-normally")
        return None, None
    finally:
        os.environ["PATH"] = paths["full"]
    col.mon("merge_returned")
    if nbd.recursion_flag():
        col.violation("recursion-flag-left-set", "_merge_strings.recursion is True after return", case, "state")
    if not isinstance(decisions, list) or not isinstance(merged, dict):
        col.violation("bad-return-shape", "%s / %s" % (type(merged).__name__, type(decisions).__name__), case, "returns")
        return None, None
    nconf = sum(1 for d in decisions if d.get("conflict"))
    col.count("merges_with_conflict" if nconf else "merges_conflict_free")
    for d in decisions:
        col.count("action:%s" % d.get("action"))
    minors = (b["nbformat_minor"], l["nbformat_minor"], rm["nbformat_minor"])
    mixed = len(set(minors)) > 1
    nontrivial = canon(l) != canon(b) and canon(rm) != canon(b) and canon(l) != canon(rm) and len(decisions) >= 1
    if prop == "C03":
        if nontrivial:
            col.nt(chash(b, l, rm, cfg, variant))
            col.count("class:" + cls)
    if schema:
        col.mon("schema_oracle")
        try:
            errs = validate_nb(to_plain(merged), check_ids=False)
            ids = [c.get('id') for c in merged.get('cells', []) if 'id' in c]
            if len(ids) != len(set(map(repr, ids))):
                col.count('observation:merged_notebook_has_duplicate_cell_ids')
        except Exception as e:
            errs = []
            col.violation("merged-not-plain-json", repr(e)[:200], case, "schema")
        custom = any(d.get("action") == "custom" for d in decisions)
        if nconf or custom or mixed:
            col.nt(chash(b, l, rm, cfg, variant))
            col.count("class:" + cls)
            col.count("declared_minor:%s" % merged.get("nbformat_minor"))
            if mixed:
                col.count("mixed_minor_triples")
        seen = set()
        for e in errs:
            k = error_key(e)
            if k in seen:
                continue
            seen.add(k)
            col.violation(classify_schema(k, mixed, cls, {'_retyped': retyped_by_id(b, l, rm), "_declared_is_max": (merged.get("nbformat_minor") == max(minors)) or not (minors[1] != minors[0] and minors[2] != minors[0] and minors[1] != minors[2])}),
                          "merged notebook (declares 4.%s) invalid: %s: %s [class=%s cfg=%s]" % (
                              merged.get("nbformat_minor"), k, getattr(e, "message", "")[:120], cls, cfg), case, "schema")
    if len(col.samples) < 2 and nconf and len(decisions) <= 6:
        col.sample({"class": cls, "config": cfg, "path_variant": variant, "info": info,
                    "decisions": [{"common_path": list(d["common_path"]), "action": d["action"], "conflict": d["conflict"]} for d in decisions]})
    return merged, decisions


def run_stream(spec, prop, schema):
    from ..gen_nb import NBGen
    from ..workloads import valid_triple, covering_configs, all_merge_configs
    col = Collector(prop)
    scratch = os.environ.get("VMON_SCRATCH", "/tmp")
    paths = env.make_path_variants(os.path.join(scratch, "paths-%s" % spec.get("shard", 0)))
    paths["git_styles"] = env.git_style_variants(os.path.join(scratch, "paths-%s" % spec.get("shard", 0)))
    os.chdir(scratch)
    r = random.Random(spec["seed"])
    variants = ["full", "diffonly", "bare", "spaced", "diffnodiff3"]
    if "replay" in spec:
        c = spec["replay"]["case"]
        merge_case(col, paths, c.get("class", "replay"), c["base"], c["local"], c["remote"], c.get("info"), c["config"],
                   c.get("path_variant", "full"), schema, prop)
        return col.result()
    allc = all_merge_configs()
    # which arms of the list merger's chunk-type switch the workload reached (evidence only)
    import nbdime.merging.generic as mg
    from nbdime.merging.chunks import chunk_typename
    real_chunks = mg.make_merge_chunks

    def counted_chunks(base, ld, rd):
        chunks = real_chunks(base, ld, rd)
        for (_k, _e, d0, d1) in chunks:
            t = "".join(chunk_typename(d0)) + "/" + "".join(chunk_typename(d1))
            if t != "/":
                col.count("chunktype:%s%s" % (t, ":string-lines" if isinstance(base, list) and base and isinstance(base[0], str) else ""))
        return chunks
    mg.make_merge_chunks = counted_chunks
    # exhaustive: every ordered triple of the degenerate documents (empty parts wherever emptiness is legal)
    import itertools
    from ..workloads import degenerate_docs
    docs = degenerate_docs()
    nsh, ish = spec.get("nshards", 16), spec.get("shard", 0)
    for k, (b, l, rm) in enumerate(itertools.permutations(docs, 3)):
        if k % nsh != ish % nsh:
            continue
        cfg = allc[(k // nsh) % len(allc)]
        merge_case(col, paths, "degenerate", b, l, rm, {}, cfg, variants[k % len(variants)], schema, prop)
        col.count("degenerate_triples_enumerated")
    for k in range(spec["triples"]):
        gen = NBGen(r, exotic=(k % 5 == 0))
        minor = k % 6 if schema else None
        want = None
        if k % 16 == 5:
            # id-aligned cells whose text one side cleared / both typed into: the cells stay aligned whatever the texts
            # are, so the text conflict reaches the line merger and its external helpers
            want, minor = "empty_source", 5
        cls, b, l, rm, info, waste = valid_triple(gen, cls=want, minor=minor)
        if waste:
            col.count("generator_waste_invalid", waste)
        if cls is None:
            continue
        if spec["full_every"] and k % spec["full_every"] == 0:
            cfgs = [(c, v) for c in allc for v in variants]        # all 282 x 3
            col.count("triples_under_all_282x3")
        else:
            cfgs = [(c, variants[(k + j) % len(variants)]) for j, c in enumerate(covering_configs(r, spec["cfgs"]))]
        if cls in ("empty_source", "same_line", "cr_progress", "nul_in_source", "same_insert_edit_below", "same_edit_insert_above") and len(cfgs) < 50:
            # classes whose text conflicts go through the external helpers: the default configuration under EVERY tool set
            dflt = {"merge": "inline", "input": None, "output": None, "ignore_transients": True}
            cfgs = cfgs + [(dflt, v) for v in variants]
            col.count("text_helper_classes_under_every_tool_set")
        if cls == "long_notebook" and len(cfgs) > 3:
            cfgs = cfgs[:3]          # ~1 s per merge: three configurations per long notebook
        for cfg, variant in cfgs:
            merge_case(col, paths, cls, b, l, rm, info, cfg, variant, schema, prop)
        if schema and k % 8 == 0:
            file_case(col, cls, b, l, rm, info, next((c for c, v in cfgs if c["merge"] != "mergetool"), None), r)
    return col.result()


def file_case(col, cls, b, l, rm, info, cfg, r):
    """the file written by the real `nbmerge --out` must validate as read from disk (C04)"""
    import json
    from .. import nbd
    from ..gen_nb import disk_form, validate_nb, error_key
    from ..workloads import config_flags
    import nbdime.nbmergeapp as app
    if cfg is None:
        return
    tmp = os.path.join(os.environ.get("VMON_SCRATCH", "/tmp"), "c04-files-%d" % os.getpid())
    os.makedirs(tmp, exist_ok=True)
    fns = []
    for name, nb in (("b", b), ("l", l), ("r", rm)):
        fn = os.path.join(tmp, name + ".ipynb")
        with open(fn, "w", encoding="utf8") as f:
            json.dump(disk_form(nb, r), f)
        fns.append(fn)
    out = os.path.join(tmp, "merged.ipynb")
    if os.path.exists(out):
        os.remove(out)
    nbd.hygiene()
    try:
        app.main(config_flags(cfg) + fns + ["--out", out])
    except Exception:
        col.count("nbmerge_raised(C03's business)")
        return
    finally:
        nbd.quiet_logging()
        nbd.dn.reset_notebook_differ()
    try:
        with open(out, encoding="utf8") as f:
            merged = json.load(f)
    except Exception as e:
        col.violation("merged-file-not-json", repr(e)[:150], {"base": b, "local": l, "remote": rm, "config": cfg}, "file")
        return
    col.mon("schema_oracle_file")
    minors = (b["nbformat_minor"], l["nbformat_minor"], rm["nbformat_minor"])
    seen = set()
    for e in validate_nb(merged, check_ids=False):
        k_ = error_key(e)
        if k_ in seen:
            continue
        seen.add(k_)
        col.violation(classify_schema(k_, len(set(minors)) > 1, cls, {"_retyped": retyped_by_id(b, l, rm), "_declared_is_max": (merged.get("nbformat_minor") == max(minors)) or not (minors[1] != minors[0] and minors[2] != minors[0] and minors[1] != minors[2])}),
                      "file written by nbmerge --out (declares 4.%s) invalid: %s [class=%s cfg=%s]" % (merged.get("nbformat_minor"), k_, cls, cfg),
                      {"base": b, "local": l, "remote": rm, "class": cls, "info": info, "config": cfg, "path_variant": "full", "file": True}, "schema-file")


def run_shard(spec):
    return run_stream(spec, ID, SCHEMA)
