"""C14 Ignore options hide exactly the ignored categories and nothing else."""
import copy
import itertools
import json
import os
import sys
import random

from ..collect import Collector
from ..canon import chash, canon, to_plain, seq, first_difference

ID = "C14"
LEVEL = "exploration"
CATS = ["sources", "outputs", "attachments", "metadata", "id", "details"]
RULE = ("all 64 subsets S of {sources, outputs, attachments, metadata, id, details} x 5 routes: positive flags naming the complement "
        "(real nbdiff parser + process_diff_flags), negative flags, and an 'Ignore' mapping (True per path, ['execution_count'] key lists "
        "for details) given to set_notebook_diff_ignores or through an nbdime_config.json read by ConfigBackedParser, and the categories' boolean options in a section of nbdime_config.json resolved by the real parsers of nbdiff, nbmerge, git-nbdiffdriver diff, git-nbdifftool diff and git-nbmergedriver merge (own and inherited sections); in addition custom key lists on /metadata and /cells/*/metadata (tags, kernelspec, container-valued keys) as docs/source/config.rst shows; pairs from the "
        "C01 related stream enriched with id-only, attachment-only, output-metadata and execution-count changes plus, for every S, a "
        "pair whose differences are confined to S minus {sources}. Oracles: (1) no op of the diff lies at or below a path of an "
        "ignored category (whole-cell / whole-output insertions excluded); (2) projection of patch(A,d) with ignored categories erased "
        "equals the projection of B; (3) only-ignored differences => empty diff; (4) after reset_notebook_differ the diff equals the "
        "unconfigured one and the table is back to defaults. Non-trivial: S non-empty and the unconfigured diff touches a category in S; "
        "distinct by (S, route, pair).")
FLOOR = {"quick": 1500, "thorough": 20000}
REQUIRED_MONITORS = ("inside_ignored", "projected_roundtrip", "only_ignored_empty", "reset", "keylist")
ASSUMPTIONS = ["category -> path table from set_notebook_diff_targets' docstring / CLI help / docs/source/config.rst",
               "naming some categories positively ignores all the others (documented exclusive-flag behaviour)"]
NSHARDS = 16
NEEDS_STUBS = True      # the git diff tool entry point imports the web application

CAT_PATHS = {
    "sources": ["/cells/*/source"],
    "outputs": ["/cells/*/outputs"],
    "attachments": ["/cells/*/attachments"],
    "metadata": ["/metadata", "/cells/*/metadata", "/cells/*/outputs/*/metadata"],
    "id": ["/cells/*/id"],
    "details": ["/cells/*/execution_count", "/cells/*/outputs/*/execution_count"],
}
FLAG = {"sources": "s", "outputs": "o", "attachments": "a", "metadata": "m", "id": "i", "details": "d"}


def plan(tier, seed):
    if tier == "quick":
        return [{"i": i, "n": NSHARDS, "pairs_per_cfg": 10, "timeout": 900} for i in range(NSHARDS)]
    return [{"i": i, "n": NSHARDS, "pairs_per_cfg": 130, "timeout": 3000} for i in range(NSHARDS)]


def leaf_paths(diff, path=""):
    """(starred path incl. the op's key, op) for every leaf op"""
    out = []
    for e in diff:
        k = "*" if isinstance(e["key"], int) else e["key"]
        p = path + "/" + k
        if e["op"] == "patch":
            out.extend(leaf_paths(e["diff"], p))
        else:
            out.append((p, e["op"]))
    return out


def inside(p, cat):
    for cp in CAT_PATHS[cat]:
        if p == cp or p.startswith(cp + "/"):
            return True
    return False


def categories_touched(diff):
    t = set()
    for p, op in leaf_paths(diff):
        for c in CATS:
            if inside(p, c):
                t.add(c)
    return t


def project(nb, S):
    """erase the ignored categories (keys that exist only for some cell/output types are
    dropped, so a cell that changes type projects the same with or without them)"""
    nb = copy.deepcopy(to_plain(nb))
    if "metadata" in S:
        nb["metadata"] = {}
    for c in nb.get("cells", []):
        if "sources" in S:
            c["source"] = ""
        if "attachments" in S:
            c.pop("attachments", None)
        if "metadata" in S:
            c["metadata"] = {}
        if "id" in S:
            c.pop("id", None)
        if "details" in S:
            c.pop("execution_count", None)
        if "outputs" in S:
            c.pop("outputs", None)
        for o in c.get("outputs", []):
            if "metadata" in S and "metadata" in o:
                o["metadata"] = {}
            if "details" in S:
                o.pop("execution_count", None)
    return nb


def ignore_mapping(S):
    """the 'Ignore' mapping that expresses category set S: True for whole lists/maps, key
    lists for leaf keys (docs/source/config.rst: key lists are 'meant to enable ignoring of
    leaf-nodes like execution_count on cells and outputs') - the same table the flag route
    installs"""
    m = {}
    cell_keys = []
    for c in CATS:
        if c not in S:
            continue
        if c == "details":
            cell_keys.append("execution_count")
            m["/cells/*/outputs/*"] = ["execution_count"]
        elif c == "id":
            cell_keys.append("id")
        else:
            for p in CAT_PATHS[c]:
                m[p] = True
            if c in ("attachments", "outputs"):
                cell_keys.append(c)
    if cell_keys:
        m["/cells/*"] = cell_keys
    return m


def install(route, S, tmp):
    """configure the real differ for ignore set S via the given route; returns False if the
    route cannot express S"""
    import nbdime.diffing.notebooks as dn
    import nbdime.nbdiffapp as app
    from nbdime.args import process_diff_flags
    dn.reset_notebook_differ()
    if route == "positive":
        comp = [c for c in CATS if c not in S]
        if not comp:
            return False          # nothing to name positively
        if not S:
            flags = ["-" + FLAG[c] for c in CATS]
        else:
            flags = ["-" + FLAG[c] for c in comp]
        ns = app._build_arg_parser("nbdiff").parse_args(flags + ["a.ipynb", "b.ipynb"])
        process_diff_flags(ns)
    elif route == "negative":
        flags = ["-" + FLAG[c].upper() for c in CATS if c in S]
        ns = app._build_arg_parser("nbdiff").parse_args(flags + ["a.ipynb", "b.ipynb"])
        process_diff_flags(ns)
    elif route == "ignore-direct":
        dn.set_notebook_diff_ignores(ignore_mapping(S))
    elif route == "ignore-config-file":
        with open(os.path.join(tmp, "nbdime_config.json"), "w") as f:
            json.dump({"NbDiff": {"Ignore": ignore_mapping(S)}}, f)
        cwd = os.getcwd()
        os.chdir(tmp)
        try:
            ns = app._build_arg_parser("nbdiff").parse_args(["a.ipynb", "b.ipynb"])
            process_diff_flags(ns)
        finally:
            os.chdir(cwd)
            os.remove(os.path.join(tmp, "nbdime_config.json"))
    elif route.startswith("config-booleans"):
        # the six categories switched off (or the complement switched on) by their boolean options in a section of
        # nbdime_config.json, resolved by the REAL parser of an entry point - plain ones and `<command> <sub-command>` ones
        _, entry, how = route.split(":")
        if how == "on":
            vals = {c: True for c in CATS if c not in S}
            if not vals:
                return False
        else:
            vals = {c: False for c in CATS if c in S}
            if not vals:
                return False
        section = {"nbdiff": "NbDiff", "nbdiff-generic-section": "Diff", "git-nbdiffdriver": "NbDiffDriver",
                   "git-nbdiffdriver-generic-section": "GitDiff", "git-nbdifftool": "NbDiffTool",
                   "nbmerge": "NbMerge", "git-nbmergedriver": "NbMergeDriver", "git-nbmergedriver-generic-section": "Merge"}[entry]
        with open(os.path.join(tmp, "nbdime_config.json"), "w") as f:
            json.dump({section: vals}, f)
        cwd = os.getcwd()
        os.chdir(tmp)
        old0 = sys.argv[0]
        try:
            if entry.startswith("nbdiff"):
                ns = app._build_arg_parser("nbdiff").parse_args(["a.ipynb", "b.ipynb"])
                process_diff_flags(ns)
            elif entry == "nbmerge":
                # (the merge commands configure the same process-wide differ: their diffs of base->local / base->remote
                # leave out the ignored categories the same way)
                import nbdime.nbmergeapp as mapp
                sys.argv[0] = "nbmerge"       # the parser takes its program name (= the entry point) from there
                ns = mapp._build_arg_parser().parse_args(["b.ipynb", "l.ipynb", "r.ipynb"])
                process_diff_flags(ns)
            elif entry.startswith("git-nbmergedriver"):
                import nbdime.vcs.git.mergedriver as m
                import nbdime.nbmergeapp as mapp
                real = mapp.main_merge
                mapp.main_merge = lambda opts: process_diff_flags(opts) or 0
                sys.argv[0] = "git-nbmergedriver"
                try:
                    m.main(["merge", "b.ipynb", "l.ipynb", "r.ipynb", "7", "p.ipynb"])
                finally:
                    mapp.main_merge = real
            elif entry.startswith("git-nbdiffdriver"):
                import nbdime.vcs.git.diffdriver as m
                real = app.main_diff
                app.main_diff = lambda opts: process_diff_flags(opts) or 0
                sys.argv[0] = "git-nbdiffdriver"
                try:
                    m.main(["diff", "p.ipynb", "a.ipynb", "0" * 40, "100644", "b.ipynb", "1" * 40, "100644"])
                finally:
                    app.main_diff = real
            else:
                import nbdime.vcs.git.difftool as m
                real = m.show_diff
                m.show_diff = lambda before, after, opts: process_diff_flags(opts) or 0
                sys.argv[0] = "git-nbdifftool"
                try:
                    m.main(["diff", "l.ipynb", "r.ipynb", "p.ipynb"])
                finally:
                    m.show_diff = real
        finally:
            sys.argv[0] = old0
            os.chdir(cwd)
            os.remove(os.path.join(tmp, "nbdime_config.json"))
    from ..nbd import quiet_logging
    quiet_logging()
    return True


def confined_edit(a, S, gen):
    """B from A by edits confined to the categories in S (never sources)"""
    r = gen.rng
    b = copy.deepcopy(a)
    did = []
    for c in b["cells"]:
        if "outputs" in S and c["cell_type"] == "code" and r.random() < 0.7:
            c["outputs"] = [gen.output(ec=c["execution_count"]) for _ in range(r.choice([0, 1, 2]))]
            did.append("outputs")
        if "attachments" in S and c["cell_type"] != "code" and r.random() < 0.7:
            att = c.setdefault("attachments", {})
            att[r.choice(["a.png", "z.png"])] = gen.mimebundle(True)
            if r.random() < 0.3 and len(att) > 1:
                del att[sorted(att)[0]]
            did.append("attachments")
        if "metadata" in S and r.random() < 0.6:
            c["metadata"]["edited"] = gen.scalar()
            did.append("cell-metadata")
        if "metadata" in S and c["cell_type"] == "code":
            for o in c["outputs"]:
                if "metadata" in o and r.random() < 0.7:
                    o["metadata"]["edited"] = gen.scalar()
                    did.append("output-metadata")
        if "id" in S and "id" in c and r.random() < 0.6:
            c["id"] = gen.new_id()
            did.append("id")
        if "details" in S and c["cell_type"] == "code" and r.random() < 0.7:
            c["execution_count"] = (c["execution_count"] or 0) + 1
            for o in c["outputs"]:
                if o["output_type"] == "execute_result" and r.random() < 0.8:
                    o["execution_count"] = (o["execution_count"] or 0) + 3
            did.append("details")
    if "metadata" in S and r.random() < 0.6:
        b["metadata"]["edited"] = gen.value()
        did.append("nb-metadata")
    with_id = [i for i, c in enumerate(b["cells"]) if "id" in c]
    if "id" in S and len(with_id) >= 2 and r.random() < 0.15:
        # the ids of two cells SWAPPED (a tool that re-keys cells): still only an id difference
        i, j = r.sample(with_id, 2)
        if b["cells"][i]["id"] == a["cells"][i]["id"] and b["cells"][j]["id"] == a["cells"][j]["id"]:
            b["cells"][i]["id"], b["cells"][j]["id"] = b["cells"][j]["id"], b["cells"][i]["id"]
            did.append("ids-swapped")
    return b, did


def judge(col, a, b, S, route, tmp, cls, confined, base_diff):
    from .. import nbd
    from ..gen_nb import to_node
    import nbdime.diffing.notebooks as dn
    col.eval()
    nbd.hygiene()
    if not install(route, S, tmp):
        col.count("route_cannot_express_S")
        return
    case = {"A": a, "B": b, "S": sorted(S), "route": route, "class": cls, "confined_to": confined}
    try:
        d = nbd.diff_notebooks(to_node(a), to_node(b))
        p = nbd.patch_notebook(to_node(a), d)
    except Exception as e:
        key, tmpl = nbd.exc_key(e)
        col.violation("diff-under-ignore-raised:%s" % key, str(e)[:200], case, "no-exception")
        dn.reset_notebook_differ()
        return
    finally:
        pass
    pd = to_plain(d)
    col.mon("inside_ignored")
    seen = set()
    for path, op in leaf_paths(pd):
        for c in S:
            if inside(path, c) and (c, path) not in seen:
                seen.add((c, path))
                col.violation(classify_inside(c, path, op), "S=%s route=%s: op %s at %s lies inside ignored category %s" % (
                    sorted(S), route, op, path, c), dict(case, diff=pd), "nothing-inside-ignored")
    col.mon("projected_roundtrip")
    if not seq(project(p, S), project(b, S)):
        col.violation("projected-roundtrip-differs", "S=%s route=%s: %s" % (sorted(S), route, first_difference(project(p, S), project(b, S))),
                      dict(case, diff=pd), "non-ignored-parts-reproduced")
    if confined is not None:
        col.mon("only_ignored_empty")
        if pd and not seen:
            lp = leaf_paths(pd)
            realign = "outputs" in S and "outputs" in confined and all(
                p == "/cells/*" or p.startswith("/cells/*/source") or p.startswith("/cells/*/") for p, op in lp) and any(p == "/cells/*" for p, op in lp)
            swapped = "id" in S and "ids-swapped" in confined
            col.violation("cell-alignment-depends-on-ignored-ids" if swapped else ("cell-alignment-depends-on-ignored-outputs" if realign else "only-ignored-differences-nonempty-diff"), "S=%s route=%s edits=%s diff=%s" % (
                sorted(S), route, confined, json.dumps(pd)[:200]), dict(case, diff=pd), "only-ignored=>empty")
    # reset
    dn.reset_notebook_differ()
    col.mon("reset")
    if nbd.state_dirty():
        col.violation("reset-leaves-differ-table-dirty", "S=%s route=%s: %r" % (sorted(S), route, nbd.state_snapshot()["differ_names"]), case, "reset")
        nbd.hygiene()
    else:
        d2 = to_plain(nbd.diff_notebooks(to_node(a), to_node(b)))
        if canon(d2) != canon(base_diff):
            col.violation("diff-after-reset-differs-from-unconfigured", "S=%s route=%s" % (sorted(S), route), case, "reset")
    if S and (categories_touched(base_diff) & set(S)):
        col.nt(chash(a, b, sorted(S), route))
        col.count("route:" + route)
        col.count("nS:%d" % len(S))
        if len(col.samples) < 2 and len(pd) <= 3:
            col.sample({"S": sorted(S), "route": route, "class": cls, "diff": pd})


# ---- key lists: "Ignore": {"/cells/*/metadata": ["tags", ...], "/metadata": [...]} ------------------------------
KEYLIST_PATHS = ["/cells/*/metadata", "/metadata"]
KEYLIST_KEYS = ["tags", "x", "nested", "extra", "kernelspec", "y", "collapsed"]


def project_keys(nb, mapping):
    nb = copy.deepcopy(to_plain(nb))
    nbkeys = list(mapping.get("/metadata", [])) if mapping.get("/metadata") is not True else []
    ckeys = list(mapping.get("/cells/*/metadata", [])) if mapping.get("/cells/*/metadata") is not True else []
    for pth, v in mapping.items():
        if v is True and pth.startswith("/metadata/"):
            nbkeys.append(pth[len("/metadata/"):])
        if v is True and pth.startswith("/cells/*/metadata/"):
            ckeys.append(pth[len("/cells/*/metadata/"):])
    for k in nbkeys:
        nb["metadata"].pop(k, None)
    for c in nb.get("cells", []):
        for k in ckeys:
            c["metadata"].pop(k, None)
        if "flags" in mapping:
            pass
    return nb


def judge_keylist(col, a, b, mapping, via_file, tmp, confined, flags=()):
    from .. import nbd
    from ..gen_nb import to_node
    import nbdime.diffing.notebooks as dn
    import nbdime.nbdiffapp as app
    from nbdime.args import process_diff_flags
    col.eval()
    nbd.hygiene()
    dn.reset_notebook_differ()
    if via_file:
        with open(os.path.join(tmp, "nbdime_config.json"), "w") as f:
            json.dump({"NbDiff": {"Ignore": mapping}}, f)
        cwd = os.getcwd()
        os.chdir(tmp)
        try:
            ns = app._build_arg_parser("nbdiff").parse_args(list(flags) + ["a.ipynb", "b.ipynb"])
            process_diff_flags(ns)
        finally:
            os.chdir(cwd)
            os.remove(os.path.join(tmp, "nbdime_config.json"))
        nbd.quiet_logging()
    else:
        dn.set_notebook_diff_ignores(mapping)
        if flags:
            # library order of the same two steps: mapping first, then the category table for the flags
            kw = {"-D": {"details": False}, "-A": {"attachments": False}, "-I": {"identifier": False}}[flags[0]]
            dn.set_notebook_diff_targets(**kw)
    case = {"A": a, "B": b, "S": ["keylist"], "route": ("ignore-keylist-file" if via_file else "ignore-keylist-direct") + ("+flag" if flags else ""),
            "mapping": mapping, "confined_to": confined, "flags": list(flags)}
    try:
        d = nbd.diff_notebooks(to_node(a), to_node(b))
        p = nbd.patch_notebook(to_node(a), d)
    except Exception as e:
        key, tmpl = nbd.exc_key(e)
        col.violation("diff-under-ignore-raised:%s" % key, str(e)[:200], case, "no-exception")
        dn.reset_notebook_differ()
        return
    finally:
        pass
    dn.reset_notebook_differ()
    pd = to_plain(d)
    col.mon("keylist")
    leaked = []
    listed = [bp + "/" + k for bp, keys in mapping.items() if keys is not True for k in keys]
    whole = [bp for bp, keys in mapping.items() if keys is True]
    for path, op in leaf_paths(pd):
        for kp in listed:
            if path == kp or path.startswith(kp + "/"):
                leaked.append(path)
        for kp in whole:
            # `true` on a path hides the differences INSIDE that list/map; the key itself being added, removed or
            # replaced by another type is reported one level up and is not promised to be hidden
            if path.startswith(kp + "/"):
                leaked.append(path)
    if leaked:
        col.violation("op-on-key-listed-in-ignore-mapping", "mapping %s: op at %s" % (mapping, sorted(set(leaked))[:3]), dict(case, diff=pd), "nothing-inside-ignored")
    if confined and pd and not leaked and any(v is True for v in mapping.values()):
        # only key-level add/remove/replace ops remain (see above): nothing to judge for whole-path mappings
        lp_ = [pth for pth, op in leaf_paths(pd)]
        if all(pth in whole for pth in lp_):
            pd = []
    fcat = {"-D": {"details"}, "-A": {"attachments"}, "-I": {"id"}}.get(flags[0], set()) if flags else set()
    pp_, pb_ = project(project_keys(p, mapping), fcat), project(project_keys(b, mapping), fcat)
    if not seq(pp_, pb_):
        col.violation("keylist-projected-roundtrip-differs", first_difference(pp_, pb_), dict(case, diff=pd), "non-ignored-parts-reproduced")
    if confined and pd and not leaked:
        col.violation("only-listed-keys-differ-nonempty-diff", json.dumps(pd)[:200], dict(case, diff=pd), "only-ignored=>empty")
    if canon(a) != canon(b):
        col.nt(chash(a, b, mapping, via_file))
        col.count("route:ignore-keylist")


def keylist_cases(col, r, tmp, n):
    from ..gen_nb import NBGen, validate_nb
    from ..workloads import valid_pair
    for j in range(n):
        gen = NBGen(r, exotic=False)
        mapping = {}
        for pth in KEYLIST_PATHS:
            if r.random() < 0.8:
                mapping[pth] = r.sample(KEYLIST_KEYS, r.randrange(1, 4))
        if not mapping:
            continue
        confined = j % 2 == 0
        if confined:
            a = gen.notebook(ncells=r.choice([1, 2, 3]))
            b = copy.deepcopy(a)
            for nbx in (a, b):
                pass
            # give both notebooks container values under the listed keys, differing only there
            for pth, keys in mapping.items():
                targets = [(a["metadata"], b["metadata"])] if pth == "/metadata" else [(ca["metadata"], cb["metadata"]) for ca, cb in zip(a["cells"], b["cells"])]
                for ma, mb in targets:
                    for k in keys:
                        if k == "collapsed":
                            continue
                        if k == "tags":
                            ma[k] = ["t1", "t2"]
                            mb[k] = r.choice([["t1", "t3", "t2"], ["t2"], ["t1", "t2", "t9"]])
                        elif k == "kernelspec":
                            ma[k] = {"name": "python3", "display_name": "Python 3"}
                            mb[k] = {"name": "python3", "display_name": "Python 3 (new)"}
                        else:
                            ma[k] = r.choice([{"k": [1, 2], "s": "text\nmore\n"}, ["a", "b"], "one\ntwo\n"])
                            mb[k] = copy.deepcopy(ma[k])
                            if isinstance(mb[k], dict):
                                mb[k]["k"] = [1, 2, 3]
                                mb[k]["s"] = "text\nMORE\n"
                            elif isinstance(mb[k], list):
                                mb[k].append("c")
                            else:
                                mb[k] = "one\nTWO\n"
            if validate_nb(a) or validate_nb(b):
                continue
        else:
            cls, a, b, rec, waste = valid_pair(gen, cls=r.choice(["related", "meta_types", "fixture_mut"]))
            if cls is None:
                continue
            if r.random() < 0.6:
                # an OUTPUT whose data is unchanged and whose own metadata changes under the very member names the mapping
                # lists for the notebook / cell level: the mapping does not name /cells/*/outputs/*/metadata, so these
                # changes must be reported and reproduced
                ks = r.sample(KEYLIST_KEYS, r.randrange(1, 3))
                oa = {"output_type": "display_data", "metadata": {k: {"v": 1} for k in ks}, "data": {"text/plain": "<Figure>", "image/png": "aGVsbG8gd29ybGQ="}}
                ob = copy.deepcopy(oa)
                for k in ks:
                    ob["metadata"][k] = {"v": 2, "more": [k]}
                for nbx, o in ((a, oa), (b, ob)):
                    cell = {"cell_type": "code", "metadata": {}, "source": "plot()", "execution_count": None, "outputs": [o]}
                    if nbx["nbformat_minor"] >= 5:
                        cell["id"] = "plotcell"
                    nbx["cells"].insert(0, cell)
                if validate_nb(a) or validate_nb(b):
                    continue
        # every third case: the mapping is combined with a flag of ANOTHER category (-D / -A / -I); the flag's table must
        # not wipe Ignore entries on paths it does not own
        flags = (r.choice(["-D", "-A", "-I"]),) if j % 3 == 0 else ()
        if flags:
            # the flag table owns /metadata and /cells/*/metadata themselves ("blows away options set via config for these
            # fields"), so the combined route names the ignored keys as full paths, which the table does not own
            mapping = {pth + "/" + k: True for pth, keys in mapping.items() for k in keys}
        judge_keylist(col, a, b, mapping, via_file=(j % 4 < 2), tmp=tmp, confined=confined, flags=flags)


def classify_inside(cat, path, op):
    """one mechanism per (category, place) - root causes, e.g. the atomic /cells/*/id path that
    never consults the installed ignore differ"""
    if cat == "id":
        return "id-ignore-ineffective"
    if cat == "metadata" and path.startswith("/cells/*/outputs/*/metadata"):
        return "output-metadata-ignore-ineffective"
    if cat in ("attachments", "outputs") and path in ("/cells/*/attachments", "/cells/*/outputs") and op in ("add", "remove"):
        return "ignored-container-key-add-remove-reported"
    return "op-inside-ignored:%s:%s" % (cat, path)


def run_shard(spec):
    from .. import nbd
    from ..gen_nb import NBGen, to_node
    from ..workloads import valid_pair
    from ..gen_nb import validate_nb
    col = Collector(ID)
    r = random.Random(spec["seed"])
    tmp = os.path.join(os.environ.get("VMON_SCRATCH", "/tmp"), "c14-%s" % spec.get("shard", 0))
    os.makedirs(tmp, exist_ok=True)
    os.chdir(os.environ.get("VMON_SCRATCH", "/tmp"))
    routes = ["positive", "negative", "ignore-direct", "ignore-config-file", "config-booleans"]
    cb_entries = ["nbdiff", "git-nbdiffdriver", "git-nbdifftool", "nbdiff-generic-section", "git-nbdiffdriver-generic-section",
                  "nbmerge", "git-nbmergedriver", "git-nbmergedriver-generic-section"]
    if "replay" in spec:
        c = spec["replay"]["case"]
        nbd.hygiene()
        base_diff = to_plain(nbd.diff_notebooks(to_node(c["A"]), to_node(c["B"])))
        judge(col, c["A"], c["B"], set(c["S"]), c["route"], tmp, c.get("class"), c.get("confined_to"), base_diff)
        return col.result()
    keylist_cases(col, r, tmp, 12 if spec["pairs_per_cfg"] <= 10 else 150)
    subsets = [set(s) for n in range(7) for s in itertools.combinations(CATS, n)]
    cnt = 0
    for S in subsets:
        for route in routes:
            cnt += 1
            if cnt % spec["n"] != spec["i"]:
                continue
            for j in range(spec["pairs_per_cfg"]):
                gen = NBGen(r, exotic=False)
                confined = None
                if j % 2 == 1 and (S - {"sources"}):
                    a = gen.notebook(5 if ("id" in S and r.random() < 0.8) else None, ncells=r.choice([2, 3, 4]))
                    if validate_nb(a):
                        continue
                    if r.random() < 0.25:
                        # payloads beyond the alignment predicates' comparison cut-offs (10000 / 1000 chars)
                        from ..workloads import inflate_outputs
                        if inflate_outputs(a, r):
                            col.count("confined_pairs_with_large_output_payload")
                    b, confined = confined_edit(a, S - {"sources"}, gen)
                    if validate_nb(b):
                        continue
                    cls = "confined"
                else:
                    cls, a, b, rec, waste = valid_pair(gen, cls=r.choice(["related", "related", "attachments", "output_kinds", "mime_keys", "meta_types", "minor_change", "move_dup", "large_outputs"]))
                    if cls is None:
                        continue
                    if r.random() < 0.5:
                        b, extra = confined_edit(b, set(r.sample(CATS[1:], 2)), gen)
                        if validate_nb(b):
                            continue
                nbd.hygiene()
                if j % 4 == 3:
                    # an earlier configuration of the same process, undone by the documented reset: whole-path ignores on
                    # the paths where the flag tables install their key filters, then such a flag table on top, then reset
                    import nbdime.diffing.notebooks as dn_
                    try:
                        dn_.set_notebook_diff_ignores({pth: True for pth in r.sample(["/cells/*/outputs/*", "/cells/*", "/cells/*/outputs", "/metadata", "/cells/*/metadata"], r.randrange(1, 4))})
                        dn_.set_notebook_diff_targets(**{k: r.random() < 0.5 for k in ("sources", "outputs", "attachments", "metadata", "identifier", "details")})
                        if r.random() < 0.5:
                            dn_.set_notebook_diff_ignores({"/cells/*/outputs/*": ["execution_count"], "/cells/*": ["execution_count"]})
                    finally:
                        dn_.reset_notebook_differ()
                    col.count("cases_after_an_earlier_configuration_was_reset")
                try:
                    base_diff = to_plain(nbd.diff_notebooks(to_node(a), to_node(b)))
                except Exception:
                    col.count("unconfigured_diff_raised(C01's business)")
                    continue
                route_ = route
                if route == "config-booleans":
                    route_ = "config-booleans:%s:%s" % (cb_entries[(cnt + j) % len(cb_entries)], "on" if r.random() < 0.35 else "off")
                judge(col, a, b, S, route_, tmp, cls, confined, base_diff)
    return col.result()
