"""C20 Web API agrees with the library and writes only where told at start-up."""
import asyncio
import hashlib
import http.client
import json
import os
import random
import shutil
import subprocess
import sys
import threading
import time

from ..collect import Collector
from ..canon import chash, canon, to_plain, first_difference

ID = "C20"
LEVEL = "exploration"
NEEDS_STUBS = True
RULE = ("in-process servers built by the real make_app/init_app (stub jupyter_server/jinja2 base classes) in modes: plain server, diff tool "
        "(difftool_args), merge tool with / without output file, closable / not, base_url '/' and '/nb/dime/'. Sequences of 5-40 requests "
        "mixing valid /api/diff, /api/merge, /api/store, /api/closetool over generated notebook files with malformed ones (not JSON, "
        "wrong type, missing key, non-notebook file, missing file, unknown URL, wrong method, API path outside the base_url prefix) and "
        "store bodies with extra path-like fields (outputfilename, path, fn, cwd: absolute, relative, '..'), and notebook files being saved again between requests (also within the same second as the previous read). Recorded at the client "
        "boundary: call event, status + body; before/after every request a hash snapshot of the server cwd, a decoy directory and the "
        "scratch root; a fixed probe /api/diff is re-issued after every request and compared with its first answer; the first answer is "
        "compared with a fresh-process library computation. Oracles as listed in DESIGN C20. "
        "Non-trivial: a judged request preceded by >= 1 valid and >= 1 malformed request; distinct by (mode, sequence hash).")
FLOOR = {"quick": 800, "thorough": 6000}
REQUIRED_MONITORS = ("diff_endpoint", "merge_endpoint", "store_confinement", "close", "malformed", "probe_history")
ASSUMPTIONS = ["stubs implement no authentication, matching allow_unauthenticated_access", "any 4xx/5xx counts as an error status",
               "reading a notebook named by an absolute path is not a confinement violation (the property confines writes)"]
NSHARDS = 16


def plan(tier, seed):
    if tier == "quick":
        return [{"sequences": 10, "maxlen": 25, "timeout": 1200} for i in range(NSHARDS)]
    return [{"sequences": 45, "maxlen": 40, "timeout": 3300} for i in range(NSHARDS)]


MODES = [
    {"name": "server", "closable": False, "base_url": "/"},
    {"name": "server", "closable": False, "base_url": "/nb/dime/"},
    {"name": "difftool", "closable": True, "base_url": "/"},
    {"name": "mergetool-out", "closable": True, "base_url": "/"},
    {"name": "mergetool-noout", "closable": False, "base_url": "/"},
    {"name": "mergetool-out", "closable": False, "base_url": "/nb/dime/"},
    {"name": "difftool", "closable": False, "base_url": "/nb/dime/"},
    # the diff tool handed OPEN FILES instead of names (what `nbdiff-web <rev>` against the work tree passes on)
    {"name": "difftool-streams", "closable": False, "base_url": "/"},
]


def _sig(path):
    """(mtime, size) of a file outside the session's directory, None if absent: a left-over from an earlier run must not
    hide a new write to it"""
    try:
        st = os.stat(path)
        return (st.st_mtime_ns, st.st_size)
    except OSError:
        return None


class Server:
    _started = 0
    def __init__(self, mode, cwd, files):
        self.mode = mode
        self.cwd = cwd
        self.files = files
        self.port = None
        self.thread = None
        self.loop = None
        self.error = None
        self.ready = threading.Event()

    def start(self):
        import nbdime.webapp.nbdimeserver as srv
        from tornado import ioloop
        params = {"port": 0, "ip": "127.0.0.1", "cwd": self.cwd, "base_url": self.mode["base_url"]}
        name = self.mode["name"]
        if name == "difftool":
            params["difftool_args"] = {"base": self.files["base"], "remote": self.files["remote"]}
        if name == "difftool-streams":
            self.streams = [open(os.path.join(self.cwd, self.files[k]), encoding="utf8") for k in ("base", "remote")]
            params["difftool_args"] = {"base": self.streams[0], "remote": self.streams[1]}
        if name.startswith("mergetool"):
            # (init_app takes a mapping: its members come in whatever order the embedding code wrote them)
            order = [["base", "local", "remote"], ["local", "remote", "base"], ["remote", "base", "local"]][Server._started % 3]
            Server._started += 1
            params["mergetool_args"] = {k: self.files[k] for k in order}
            if name == "mergetool-out":
                params["outputfilename"] = "merged-output.ipynb"

        def run():
            try:
                asyncio.set_event_loop(asyncio.new_event_loop())
                app, server = srv.init_app(on_port=self._on_port, closable=self.mode["closable"], **params)
                self.loop = ioloop.IOLoop.current()
                self.ready.set()
                self.loop.start()
                server.stop()
            except Exception as e:     # harness failure
                self.error = repr(e)
                self.ready.set()
        self.thread = threading.Thread(target=run, daemon=True)
        self.thread.start()
        self.ready.wait(20)
        return self.error is None and self.port is not None

    def _on_port(self, port):
        self.port = port

    def alive(self):
        return self.thread.is_alive()

    def stop(self):
        if self.loop is not None and self.thread.is_alive():
            self.loop.add_callback(self.loop.stop)
            self.thread.join(10)

    def request(self, method, path, body=None, headers=None):
        conn = http.client.HTTPConnection("127.0.0.1", self.port, timeout=30)
        try:
            conn.request(method, path, body=body, headers=headers or {"Content-Type": "application/json"})
            resp = conn.getresponse()
            data = resp.read()
            return resp.status, data
        finally:
            conn.close()


def tree_hash(dirs):
    h = {}
    for base in dirs:
        for dp, dn, fn in os.walk(base):
            for f in fn:
                p = os.path.join(dp, f)
                try:
                    with open(p, "rb") as fh:
                        h[p] = hashlib.sha1(fh.read()).hexdigest()
                except OSError:
                    h[p] = "unreadable"
    return h


def write_nb(path, nb, r):
    from ..gen_nb import disk_form
    with open(path, "w", encoding="utf8") as f:
        json.dump(disk_form(nb, r), f)


def gen_requests(r, mode, prefix, n):
    """list of (kind, method, path, body-bytes, expectation)"""
    reqs = []
    api = prefix.rstrip("/")
    pathish = ["/tmp/vmon-evil.ipynb", "../escape.ipynb", "decoy/evil.ipynb", "sub/../../x.ipynb"]
    for _ in range(n):
        c = r.random()
        if c < 0.2:
            reqs.append(("diff-valid", "POST", api + "/api/diff", json.dumps({"base": "base.ipynb", "remote": r.choice(["remote.ipynb", "local.ipynb"])}).encode()))
        elif c < 0.32:
            reqs.append(("merge-valid", "POST", api + "/api/merge", json.dumps({"base": "base.ipynb", "local": "local.ipynb", "remote": "remote.ipynb"}).encode()))
        elif c < 0.47:
            body = {"merged": "NOTEBOOK"}
            for k in r.sample(["outputfilename", "path", "fn", "cwd", "filename"], r.randrange(0, 3)):
                body[k] = r.choice(pathish)
            # ... and / or in the URL's query string
            from urllib.parse import urlencode
            q = {k: r.choice(pathish + ["stored-by-query.ipynb"]) for k in r.sample(["outputfilename", "path", "fn", "out"], r.choice([0, 0, 1, 2]))}
            reqs.append(("store-valid", "POST", api + "/api/store" + (("?" + urlencode(q)) if q else ""), body))
        elif c < 0.55:
            # (the last: a notebook whose text holds half of a surrogate pair, which JSON can spell (\\ud800) but no UTF-8
            # file can hold - what JSON.stringify sends for a string cut in the middle of an emoji)
            bad = r.choice([{"merged": "a string"}, {"merged": [1, 2]}, {"merged": None}, {"nothing": 1}, {"merged": 3},
                            {"merged": {"nbformat": 4, "nbformat_minor": 4, "metadata": {}, "cells": [
                                {"cell_type": "markdown", "metadata": {}, "source": "cut \ud83d"}]}}])
            reqs.append(("store-malformed", "POST", api + "/api/store", json.dumps(bad).encode()))
        elif c < 0.6:
            reqs.append(("close", "POST", api + "/api/closetool", json.dumps({"exitCode": 0}).encode()))
        elif c < 0.64:
            # not a request: the user saves a notebook again (possibly within the same second as the last read)
            reqs.append(("fs-rewrite", "FS", r.choice(["remote.ipynb", "base.ipynb", "local.ipynb"]), None))
        elif c < 0.66:
            # an editor is half-way through saving remote.ipynb (momentarily not JSON) while a diff is requested; the file
            # is complete again right afterwards
            reqs.append(("fs-garbage-then-repair", "FS", "remote.ipynb", None))
        elif c < 0.68:
            reqs.append(("malformed-notjson", "POST", api + r.choice(["/api/diff", "/api/merge", "/api/store"]), b"{not json"))
        elif c < 0.75:
            reqs.append(("malformed-wrongtype", "POST", api + "/api/diff", json.dumps({"base": 5, "remote": ["x"]}).encode()))
        elif c < 0.81:
            reqs.append(("malformed-missingkey", "POST", api + r.choice(["/api/diff", "/api/merge"]), json.dumps({"base": "base.ipynb"}).encode()))
        elif c < 0.87:
            reqs.append(("malformed-nonnotebook", "POST", api + "/api/diff", json.dumps({"base": "notes.txt", "remote": "remote.ipynb"}).encode()))
        elif c < 0.92:
            reqs.append(("malformed-missingfile", "POST", api + "/api/diff", json.dumps({"base": "nope.ipynb", "remote": "remote.ipynb"}).encode()))
        elif c < 0.95:
            reqs.append(("malformed-unknownurl", "POST", api + "/api/nothing", b"{}"))
        elif c < 0.98:
            reqs.append(("malformed-wrongmethod", "GET", api + "/api/diff", None))
        else:
            other = "/api/diff" if prefix != "/" else "/nb/dime/api/diff"
            reqs.append(("outside-prefix", "POST", other, json.dumps({"base": "base.ipynb", "remote": "remote.ipynb"}).encode()))
    return reqs


def fresh_library(case_dir, kind):
    """library result in a freshly started interpreter"""
    code = (
        "import sys, json, warnings; warnings.simplefilter('ignore')\n"
        "from vmon import nbd; from vmon.canon import canon, to_plain; import nbformat, os\n"
        "os.chdir(sys.argv[1])\n"
        "b = nbformat.read('base.ipynb', as_version=4); r = nbformat.read('remote.ipynb', as_version=4)\n"
        "print('VMON-RESULT ' + canon(to_plain(nbd.diff_notebooks(b, r))))\n")
    p = subprocess.run([sys.executable, "-c", code, case_dir], capture_output=True, timeout=120)
    for line in p.stdout.decode(errors="replace").splitlines():
        if line.startswith("VMON-RESULT "):
            return line[len("VMON-RESULT "):]
    return None


def run_sequence(col, r, root, mode, nreq, seqno):
    from .. import nbd
    from ..gen_nb import NBGen, to_node, validate_nb
    from ..workloads import valid_triple, merge_args
    from ..refdiff import ref_patch, IllFormed
    import nbformat
    gen = NBGen(r, exotic=False)
    cls, b, l, rm, info, waste = valid_triple(gen)
    if cls in ("large_outputs", "long_notebook"):
        # every session diffs its notebooks a dozen times (requests + probes): the size classes, whose single diff can
        # take seconds, are left to the library-level checks
        cls, b, l, rm, info, waste = valid_triple(gen, cls="random")
    if cls is None:
        return
    if r.random() < 0.2:
        # remote = base up to the JSON TYPE of some numbers / booleans in metadata (true vs 1, 2 vs 2.0): documents that
        # Python's == calls equal and JSON does not
        rm = json.loads(json.dumps(b))
        tw = {True: 1, False: 0}
        spots = [rm["metadata"]] + [c["metadata"] for c in rm["cells"]]
        for md in spots:
            md["typed"] = r.choice([True, 1, 1.0, 0, False, 2])
        b = json.loads(json.dumps(rm))
        changed = 0
        for md in [b["metadata"]] + [c["metadata"] for c in b["cells"]]:
            v = md["typed"]
            if r.random() < 0.7:
                md["typed"] = (int(v) if isinstance(v, bool) else (float(v) if isinstance(v, int) else (bool(v) if v in (0.0, 1.0) else int(v))))
                changed += 1
        if changed:
            cls = "type-only"
            col.count("sessions_with_type_only_difference_base_remote")
    case = os.path.join(root, "case")
    decoy = os.path.join(root, "decoy-outside")
    shutil.rmtree(case, ignore_errors=True)
    shutil.rmtree(decoy, ignore_errors=True)
    os.makedirs(os.path.join(case, "decoy"))
    os.makedirs(os.path.join(case, "sub"))
    os.makedirs(decoy)
    for name, nb in (("base", b), ("local", l), ("remote", rm)):
        write_nb(os.path.join(case, name + ".ipynb"), nb, r)
    if mode["name"].startswith("mergetool") and r.random() < 0.3:
        # git hands a merge tool a ZERO-SIZE base file for an add/add conflict; nbmerge and the merge tool session
        # read it as an empty notebook (server cwd = case directory, process cwd = its parent, name relative)
        open(os.path.join(case, "base.ipynb"), "w").close()
        b = json.loads(json.dumps(nbformat.v4.new_notebook()))
        col.count("mergetool_sessions_with_zero_size_base_file")
    with open(os.path.join(case, "notes.txt"), "w") as f:
        f.write("not a notebook\n")
    with open(os.path.join(decoy, "keep.txt"), "w") as f:
        f.write("decoy\n")
    files = {"base": "base.ipynb", "local": "local.ipynb", "remote": "remote.ipynb"}
    # no state hygiene here on purpose: the server is a long-lived process (history clause)
    srv = Server(mode, case, files)
    if not srv.start():
        col.inconc("server did not start: %s" % srv.error)
        return
    prefix = mode["base_url"]
    api = prefix.rstrip("/")
    watch = [case, decoy, "/tmp/vmon-evil.ipynb"]
    wit0 = {"mode": mode, "base": b, "local": l, "remote": rm, "class": cls, "sequence_no": seqno}
    probe_body = json.dumps({"base": "base.ipynb", "remote": "remote.ipynb"}).encode()
    first_probe = None
    reqs = gen_requests(r, mode, prefix, nreq)
    seen_valid = seen_malformed = False
    history = []
    stopped = False
    try:
        for idx, (kind, method, path, body) in enumerate(reqs):
            if kind == "fs-garbage-then-repair":
                fpath = os.path.join(case, path)
                with open(fpath, encoding="utf8") as f_:
                    good = f_.read()
                with open(fpath, "w", encoding="utf8") as f_:
                    f_.write('{"cells": [ {"cell_type": "code", "sour')
                st_, _d = srv.request("POST", api + "/api/diff", probe_body)
                col.eval()
                col.mon("malformed")
                col.count("requests_while_a_notebook_was_half_written")
                if mode["name"] in ("server", "difftool", "difftool-streams") and st_ < 400:
                    col.violation("malformed-request-answered-2xx:half-written-notebook", "status %s [mode=%s]" % (st_, mode["name"]), dict(wit0, history=list(history)), "malformed")
                with open(fpath, "w", encoding="utf8") as f_:
                    f_.write(good)
                history.append([kind, "FS", path])
                seen_malformed = True
                continue
            if kind == "fs-rewrite":
                from ..gen_edit import mutate
                from ..gen_nb import validate_nb as _val
                cur = {"remote.ipynb": rm, "base.ipynb": b, "local.ipynb": l}[path]
                new_nb, _rec = mutate(cur, gen, steps=2)
                if _val(new_nb):
                    continue
                write_nb(os.path.join(case, path), new_nb, r)
                if path == "remote.ipynb":
                    rm = new_nb
                elif path == "base.ipynb":
                    b = new_nb
                else:
                    l = new_nb
                first_probe = None          # the probe's expected answer is the one for the files now on disk
                history.append([kind, "FS", path])
                col.count("files_rewritten_between_requests")
                continue
            if kind == "store-valid":
                bd = dict(body)
                bd["merged"] = json.loads(json.dumps(to_plain(rm)))
                body_bytes = json.dumps(bd).encode()
            else:
                body_bytes = body
            before = tree_hash(watch[:2])
            evil_before = _sig("/tmp/vmon-evil.ipynb")
            col.eval()
            history.append([kind, method, path])
            try:
                status, data = srv.request(method, path, body_bytes)
            except Exception as e:
                if kind == "close" and mode["closable"]:
                    status, data = 200, b""
                else:
                    col.violation("server-dropped-connection:%s" % kind, repr(e)[:150], dict(wit0, history=history), "answers")
                    break
            after = tree_hash(watch[:2])
            changed = sorted(p for p in set(before) | set(after) if before.get(p) != after.get(p))
            wit = dict(wit0, history=list(history), request={"kind": kind, "method": method, "path": path,
                                                             "body": (body_bytes or b"").decode("utf8", "replace")[:400]})
            outpath = os.path.join(case, "merged-output.ipynb")
            if kind == "diff-valid" and not mode["name"].startswith("difftool") and any(
                    os.path.exists(os.path.join(case, n)) and os.path.getsize(os.path.join(case, n)) == 0
                    for n in (json.loads(body_bytes).get("base"), json.loads(body_bytes).get("remote")) if isinstance(n, str)):
                # /api/diff of a zero-size file: not a notebook, the server may refuse it (only the merge tool session
                # reads zero-size files as empty notebooks)
                col.count("diff_request_naming_zero_size_file_not_judged")
            elif kind == "diff-valid":
                col.mon("diff_endpoint")
                if status != 200:
                    col.violation("valid-diff-request-rejected", "status %s: %s" % (status, data[:200]), wit, "diff")
                else:
                    try:
                        ans = json.loads(data)
                        req = json.loads(body_bytes)
                        if mode["name"].startswith("difftool"):
                            want_base, want_remote = "base.ipynb", "remote.ipynb"
                        else:
                            want_base, want_remote = req["base"], req["remote"]
                        fb = json.loads(json.dumps(nbformat.read(os.path.join(case, want_base), as_version=4)))
                        fr = json.loads(json.dumps(nbformat.read(os.path.join(case, want_remote), as_version=4)))
                        if canon(ans["base"]) != canon(fb):
                            col.violation("diff-endpoint-base-differs-from-file", first_difference(ans["base"], fb), wit, "diff")
                        try:
                            if canon(ref_patch(ans["base"], ans["diff"])) != canon(fr):
                                col.violation("diff-endpoint-diff-does-not-patch-to-remote", first_difference(ref_patch(ans["base"], ans["diff"]), fr), wit, "diff")
                        except IllFormed as e:
                            col.violation("diff-endpoint-illformed-diff", str(e)[:200], wit, "diff")
                    except Exception as e:
                        col.violation("diff-endpoint-unparsable-answer", repr(e)[:200], wit, "diff")
                seen_valid = True
            elif kind == "merge-valid":
                col.mon("merge_endpoint")
                if status != 200:
                    col.violation("valid-merge-request-rejected", "status %s: %s" % (status, data[:200]), wit, "merge")
                else:
                    ans = json.loads(data)
                    nbs = [nbformat.read(os.path.join(case, n + ".ipynb"), as_version=4) if os.path.getsize(os.path.join(case, n + ".ipynb")) else nbformat.v4.new_notebook()
                           for n in ("base", "local", "remote")]
                    want = nbd.decide_notebook_merge(nbs[0], nbs[1], nbs[2], merge_args({"merge": "mergetool", "input": None, "output": None, "ignore_transients": True}))
                    nbd.quiet_logging()
                    if canon(ans["merge_decisions"]) != canon(to_plain(want)):
                        col.violation("merge-endpoint-decisions-differ-from-library", first_difference(ans["merge_decisions"], to_plain(want)), wit, "merge")
                    if canon(ans["base"]) != canon(json.loads(json.dumps(nbs[0]))):
                        col.violation("merge-endpoint-base-differs-from-file", "", wit, "merge")
                seen_valid = True
            elif kind in ("store-valid", "store-malformed"):
                col.mon("store_confinement")
                has_out = mode["name"] == "mergetool-out"
                foreign = [p for p in changed if p != outpath]
                if foreign or (_sig("/tmp/vmon-evil.ipynb") != evil_before):
                    col.violation("store-wrote-outside-designated-output", "changed: %s" % (foreign or ["/tmp/vmon-evil.ipynb"])[:3], wit, "confinement")
                if not has_out:
                    if status < 400:
                        col.violation("store-accepted-without-output-file", "status %s" % status, wit, "confinement")
                    if changed:
                        col.violation("store-wrote-without-output-file", str(changed[:3]), wit, "confinement")
                elif kind == "store-valid":
                    if status != 200:
                        col.violation("valid-store-rejected", "status %s %s" % (status, data[:200]), wit, "store")
                    else:
                        try:
                            with open(outpath, encoding="utf8") as f:
                                got = json.load(f)
                            want = json.loads(nbformat.writes(nbformat.from_dict(json.loads(json.dumps(to_plain(rm))))))
                            if canon(got) != canon(want):
                                col.violation("stored-file-differs-from-submitted-notebook", first_difference(got, want), wit, "store")
                        except Exception as e:
                            col.violation("stored-file-unreadable", repr(e)[:200], wit, "store")
                    seen_valid = True
                else:
                    col.mon("malformed")
                    if status < 400:
                        col.violation("malformed-store-accepted", "status %s for body %s" % (status, body_bytes[:80]), wit, "malformed")
                    if changed:
                        col.violation("malformed-store-changed-disk", "status %s; changed %s (output file truncated or rewritten)" % (status, [os.path.basename(p) for p in changed][:3]), wit, "malformed")
                    seen_malformed = True
            elif kind == "close":
                col.mon("close")
                time.sleep(0.15)
                if mode["closable"]:
                    if status >= 400:
                        col.violation("closable-server-refused-close", "status %s" % status, wit, "close")
                    deadline = time.time() + 5
                    while srv.alive() and time.time() < deadline:
                        time.sleep(0.05)
                    if srv.alive():
                        col.violation("closable-server-did-not-stop", "", wit, "close")
                    stopped = True
                else:
                    if status < 400:
                        col.violation("non-closable-server-accepted-close", "status %s" % status, wit, "close")
                    if not srv.alive():
                        col.violation("non-closable-server-stopped", "", wit, "close")
                        stopped = True
                if changed:
                    col.violation("close-changed-disk", str(changed[:3]), wit, "close")
            else:
                tool_fixed = (mode["name"].startswith("difftool") and path.endswith("/api/diff") and path.startswith(api + "/api")) or \
                             (mode["name"].startswith("mergetool") and path.endswith("/api/merge") and path.startswith(api + "/api"))
                if tool_fixed and kind != "malformed-wrongmethod":
                    # tool sessions take their notebooks from the start-up parameters and never read the body:
                    # whatever the body holds this is a valid request for them
                    col.count("body_ignored_by_tool_session")
                    continue
                col.mon("malformed")
                col.count("malformed:" + kind)
                if status < 400:
                    col.violation("malformed-request-answered-2xx:%s" % kind, "status %s for %s %s [mode=%s]" % (status, method, path, mode["name"]), wit, "malformed")
                if changed:
                    col.violation("malformed-request-changed-disk:%s" % kind, str(changed[:3]), wit, "malformed")
                seen_malformed = True
            if stopped:
                break
            # probe: later requests must be answered as if they were the first
            if mode["name"] in ("server", "difftool", "difftool-streams"):
                ps, pdata = srv.request("POST", api + "/api/diff", probe_body)
                col.mon("probe_history")
                if ps != 200:
                    col.violation("probe-fails-after-history", "probe status %s after %s" % (ps, kind), wit, "history")
                else:
                    pc = canon(json.loads(pdata))
                    if first_probe is None:
                        first_probe = pc
                        lib = fresh_library(case, "diff")
                        if lib is not None and canon(json.loads(pdata)["diff"]) != lib:
                            col.violation("first-answer-differs-from-fresh-library", "", wit, "history")
                    elif pc != first_probe:
                        col.violation("probe-answer-changed-after-history", "after %s" % kind, wit, "history")
            if seen_valid and seen_malformed:
                col.nt(chash(mode, [h for h in history], seqno, r.random()))
    finally:
        srv.stop()
    col.count("mode:%s%s%s" % (mode["name"], ":closable" if mode["closable"] else "", ":prefixed" if mode["base_url"] != "/" else ""))
    if len(col.samples) < 2:
        col.sample({"mode": mode, "requests": [h[:3] for h in history][:12]})


def run_shard(spec):
    col = Collector(ID)
    r = random.Random(spec["seed"])
    root = os.path.join(os.environ.get("VMON_SCRATCH", "/tmp"), "c20-%s" % spec.get("shard", 0))
    os.makedirs(root, exist_ok=True)
    os.chdir(root)
    import logging
    logging.getLogger("tornado").setLevel(logging.CRITICAL + 10)
    if "replay" in spec:
        col.inconc("C20 witnesses carry the full request history; replay by re-running with the same VERIF_SEED")
        return col.result()
    for k in range(spec["sequences"]):
        mode = MODES[(k + spec.get("shard", 0)) % len(MODES)]
        run_sequence(col, r, root, mode, r.randrange(5, spec["maxlen"] + 1), k)
    shutil.rmtree(root, ignore_errors=True)
    return col.result()
