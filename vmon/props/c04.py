"""C04 A merged notebook always validates against its declared notebook format."""
from . import c03

ID = "C04"
LEVEL = "exploration"
RULE = ("the C03 triple/configuration stream with the base minor swept over 0-5; every merged notebook returned is validated "
        "with pure jsonschema (Draft-4) against nbformat's schema file for the minor version the merged notebook itself declares. "
        "Non-trivial: >= 1 conflicted decision or >= 1 custom action or a mixed-minor triple; distinct by (triple, configuration, "
        "PATH variant). For every 8th triple the real `nbmerge ... --out F` runs in-process and F is validated as read from disk. Inputs are validated by the same oracle first; invalid generations are discarded and counted.")
FLOOR = {"quick": 2500, "thorough": 15000}
REQUIRED_MONITORS = ("merge_returned", "schema_oracle", "schema_oracle_file")
ASSUMPTIONS = ["nbformat's shipped per-minor schema files define validity; nbformat.validate is not used (it mutates and relaxes)",
               "duplicate cell ids are counted as an observation, not judged (the JSON schema does not express uniqueness)",
               "merges that raise are C03's business and are only counted here"]
NSHARDS = c03.NSHARDS
plan = c03.plan


def run_shard(spec):
    return c03.run_stream(spec, ID, True)
