"""C19 Option resolution follows flag > most specific config section > default."""
import contextlib
import io
import json
import os
import random
import shutil
import sys

from ..collect import Collector
from ..canon import chash, canon
from .. import ref_config as M

ID = "C19"
LEVEL = "exploration"
NEEDS_STUBS = True
RULE = ("11 entry points x generated layouts: every documented section that applies (own, GitDiff/GitMerge, Diff/Merge, WebTool, Web, Global) "
        "sets each applicable option or not, values from the option's domain, spread over 1-3 nbdime_config.json files (cwd, user "
        "JUPYTER_CONFIG_DIR, system JUPYTER_CONFIG_PATH) with overlapping keys, 'Ignore' mappings in several sections; a random subset of "
        "options also given as flags. Observed: nbdime.config.build_config(entry) and the namespace returned by the entry point's real "
        "argument parser (git commands through their real main with the action function replaced by a recorder). Compared with "
        "vmon/ref_config.py, an executable reading of docs/source/config.rst that never imports nbdime.config. "
        "Non-trivial: >= 2 sections or >= 2 files set one option differently, or a flag overrides a configured value; distinct by hash of "
        "(entry, layout, flags).")
FLOOR = {"quick": 800, "thorough": 12000}
REQUIRED_MONITORS = ("build_config", "parser_namespace")
ASSUMPTIONS = ["ignorable options are compared on the parser namespace before process_diff_flags", "store_true flags can only express one value",
               "explicit null values are not generated (their meaning is not documented)", "workdirectory default compared modulo the actual cwd",
               "'server' and 'extension' have no console script: observed through build_config only"]
NSHARDS = 16
PARSER_ENTRIES = ["nbdiff", "nbdiff-web", "nbmerge", "nbmerge-web", "nbshow", "git-nbdiffdriver", "git-nbdifftool", "git-nbmergedriver", "git-nbmergetool"]


def plan(tier, seed):
    if tier == "quick":
        return [{"cases": 110, "timeout": 900} for i in range(NSHARDS)]
    return [{"cases": 1500, "timeout": 3000} for i in range(NSHARDS)]


FLAG_OF = {
    "log_level": lambda v: ["--log-level", v], "port": lambda v: ["-p", str(v)], "ip": lambda v: ["--ip", v],
    "base_url": lambda v: ["--base-url", v], "browser": lambda v: ["-b", v], "persist": lambda v: ["--persist"] if v else None,
    "workdirectory": lambda v: ["-w", v], "color_words": lambda v: ["--color-words"] if v else None,
    "merge_strategy": lambda v: ["--merge-strategy", v], "input_strategy": lambda v: ["--input-strategy", v],
    "output_strategy": lambda v: ["--output-strategy", v], "ignore_transients": lambda v: ["--no-ignore-transients"] if not v else None,
    "show_base": lambda v: ["--no-base"] if not v else None,
    "use_filter": lambda v: ["--use-filter"] if v else None,
}
NS_NAME = {"show_base": "show_base"}


def gen_layout(r, entry):
    """files in descending priority [cwd, user, system]; each {section: {option: value}}"""
    nfiles = r.choice([1, 2, 2, 3])
    files = [{} for _ in range(3)]
    secs = M.SECTIONS[entry]
    opts = [o for o in M.options_of(entry)]
    focus = r.sample(opts, min(len(opts), r.choice([1, 2, 3, 5])))
    for opt in focus:
        for sec in secs:
            if opt not in M.SECTION_OPTS.get(sec, []):
                continue
            if r.random() < 0.5:
                continue
            fi = r.randrange(nfiles)
            f = files[fi]
            if opt == "Ignore":
                # (an EMPTY mapping is legal too - it is what `<command> --config` prints for a section without rules -
                # and, merged on top of another file's rules, changes nothing)
                m = {p: r.choice(M.IGNORE_VALUES) for p in r.sample(M.IGNORE_PATHS, r.choice([0, 1, 1, 2]))}
                f.setdefault(sec, {}).setdefault("Ignore", {}).update(m)
                if r.random() < 0.4 and nfiles > 1:
                    # the same section's Ignore in a second file: rules of its own, or none
                    f2 = files[0] if fi != 0 else files[r.randrange(1, nfiles)]
                    f2.setdefault(sec, {}).setdefault("Ignore", {}).update(
                        {p: r.choice(M.IGNORE_VALUES) for p in r.sample(M.IGNORE_PATHS, r.choice([0, 0, 1]))})
            else:
                f.setdefault(sec, {})[opt] = r.choice(M.DOMAINS[opt])
            if r.random() < 0.3 and nfiles > 1 and opt != "Ignore":
                # the same section+option in a second file: only cwd vs one other file (the property orders the
                # working directory above the rest; the mutual order of user/system/env directories is jupyter_core's business)
                f2 = files[0] if fi != 0 else files[r.randrange(1, nfiles)]
                f2.setdefault(sec, {})[opt] = r.choice(M.DOMAINS[opt])
    # sections that do not apply to this entry point must not matter
    if r.random() < 0.3:
        other = r.choice([s for s in M.SECTION_OPTS if s not in secs])
        o = r.choice([x for x in M.SECTION_OPTS[other] if x != "Ignore"])
        files[0].setdefault(other, {})[o] = r.choice(M.DOMAINS[o])
    return files, focus


def gen_flags(r, entry, focus):
    flags = {}
    argv = []
    for opt in focus:
        if opt in FLAG_OF and r.random() < 0.35:
            if opt in ("port", "ip", "base_url", "browser", "persist", "workdirectory", "show_base") and opt not in M.SECTION_OPTS[M.SECTIONS[entry][0]]:
                continue
            if opt == "use_filter" and entry not in ("git-nbdiffdriver", "git-nbdifftool"):
                continue        # only the git diff driver / tool have the flag
            v = r.choice(M.DOMAINS[opt])
            a = FLAG_OF[opt](v)
            if a is None:
                continue
            # the spellings argparse accepts: `--flag value`, `--flag=value`, an unambiguous abbreviation, `-p0`
            if len(a) == 2:
                sp = r.random()
                if a[0].startswith("--") and sp < 0.3:
                    a = [a[0] + "=" + str(a[1])]
                elif a[0].startswith("--") and sp < 0.4 and len(a[0]) > 8 and opt in ("merge_strategy", "input_strategy", "output_strategy", "log_level", "base_url"):
                    a = [a[0][:-2], a[1]]
                elif not a[0].startswith("--") and sp < 0.4:
                    a = [a[0] + str(a[1])]
            flags[opt] = v
            argv += a
    return flags, argv


def write_layout(root, files):
    dirs = [os.path.join(root, n) for n in ("cwd", "user", "system")]
    for d, cfg in zip(dirs, files):
        shutil.rmtree(d, ignore_errors=True)
        os.makedirs(d)
        if cfg:
            with open(os.path.join(d, "nbdime_config.json"), "w") as f:
                json.dump(cfg, f)
    return dirs


def parser_namespace(entry, argv):
    """namespace produced by the entry point's REAL parser construction + parse_args"""
    old_argv0 = sys.argv[0]
    sys.argv[0] = entry
    rec = {}
    try:
        if entry == "nbdiff":
            import nbdime.nbdiffapp as m
            return vars(m._build_arg_parser("nbdiff").parse_args(argv + ["a.ipynb", "b.ipynb"]))
        if entry == "nbmerge":
            import nbdime.nbmergeapp as m
            return vars(m._build_arg_parser().parse_args(argv + ["b.ipynb", "l.ipynb", "r.ipynb"]))
        if entry == "nbshow":
            import nbdime.nbshowapp as m
            return vars(m._build_arg_parser().parse_args(argv + ["a.ipynb"]))
        if entry == "nbdiff-web":
            import nbdime.webapp.nbdiffweb as m
            return vars(m.build_arg_parser().parse_args(argv + ["a.ipynb", "b.ipynb"]))
        if entry == "nbmerge-web":
            import nbdime.webapp.nbmergeweb as m
            return vars(m.build_arg_parser().parse_args(argv + ["b.ipynb", "l.ipynb", "r.ipynb"]))
        generic = [x for i, x in enumerate(argv) if x == "--log-level" or (i > 0 and argv[i - 1] == "--log-level")]
        rest = [x for x in argv if x not in generic]
        if entry == "git-nbdiffdriver":
            import nbdime.vcs.git.diffdriver as m
            import nbdime.nbdiffapp as app
            real = app.main_diff
            app.main_diff = lambda opts: rec.update(vars(opts)) or 0
            try:
                m.main(generic + ["diff"] + rest + ["p.ipynb", "a.ipynb", "0" * 40, "100644", "b.ipynb", "1" * 40, "100644"])
            finally:
                app.main_diff = real
            return rec
        if entry == "git-nbmergedriver":
            import nbdime.vcs.git.mergedriver as m
            import nbdime.nbmergeapp as app
            real = app.main_merge
            app.main_merge = lambda opts: rec.update(vars(opts)) or 0
            try:
                m.main(generic + ["merge"] + rest + ["b.ipynb", "l.ipynb", "r.ipynb", "7", "p.ipynb"])
            finally:
                app.main_merge = real
            return rec
        if entry == "git-nbdifftool":
            import nbdime.vcs.git.difftool as m
            real = m.show_diff
            m.show_diff = lambda before, after, opts: rec.update(vars(opts)) or 0
            try:
                # the tool sub-parsers accept the generic flags themselves: give them there
                m.main(["diff"] + generic + rest + ["l.ipynb", "r.ipynb", "p.ipynb"])
            finally:
                m.show_diff = real
            return rec
        if entry == "git-nbmergetool":
            import nbdime.vcs.git.mergetool as m
            real = m.nbmergetool.main_parsed
            m.nbmergetool.main_parsed = lambda opts: rec.update(vars(opts)) or 0
            try:
                m.main(["merge"] + generic + rest + ["b.ipynb", "l.ipynb", "r.ipynb", "m.ipynb"])
            finally:
                m.nbmergetool.main_parsed = real
            return rec
    finally:
        sys.argv[0] = old_argv0
    return None


def classify(entry, opt, files, want, got):
    sec = M.deciding_section(entry, files, opt)
    if sec == "Global":
        return "global-section-never-applied"
    if entry == "server" and opt == "port" and sec == "Web" and got == 8888:
        return "subclass-default-shadows-configured-section-value"
    return "option-resolution-differs:%s" % ("flag" if sec is None else "section")


def run_shard(spec):
    from .. import nbd
    import nbdime.config as cfg
    import nbdime.diffing.notebooks as dn
    col = Collector(ID)
    r = random.Random(spec["seed"])
    root = os.path.join(os.environ.get("VMON_SCRATCH", "/tmp"), "c19-%s" % spec.get("shard", 0))
    os.makedirs(root, exist_ok=True)
    entries = list(M.SECTIONS)
    cases = []
    if "replay" in spec:
        c = spec["replay"]["case"]
        cases = [(c["entry"], c["files"], c.get("focus", []), c.get("flags", {}), c.get("argv", []))]
    else:
        for k in range(spec["cases"]):
            entry = entries[k % len(entries)]
            files, focus = gen_layout(r, entry)
            flags, argv = gen_flags(r, entry, focus) if entry in PARSER_ENTRIES else ({}, [])
            cases.append((entry, files, focus, flags, argv))
    if spec.get("shard", 0) == 0:
        # inventory: every trait the entry points' config classes declare (config-tagged or not) must be an option of
        # the model, otherwise that option is silently never judged
        for ep, cls in cfg.entrypoint_configurables.items():
            missing = set(cls.class_trait_names()) - {"config", "parent", "log"} - set(M.options_of(ep))
            for name in sorted(missing):
                col.inconc("option %r of entry point %r is declared in nbdime/config.py but not in the model (vmon/ref_config.py)" % (name, ep))
            col.count("options_inventoried", len(set(cls.class_trait_names()) - {"config", "parent", "log"}))
    home = os.getcwd()
    ncase = 0
    for entry, files, focus, flags, argv in cases:
        col.eval()
        dirs = write_layout(root, files)
        cwd_is_user = (not files[1]) and (chash(entry, files) [0] in "01234567")
        if cwd_is_user:
            # the working directory IS the user-level jupyter config directory (e.g. nbdiff run from ~/.jupyter): its file
            # still ranks as the working-directory file, above every other directory
            dirs[1] = dirs[0]
            col.count("layout:cwd_is_the_user_config_dir")
        os.environ["JUPYTER_CONFIG_DIR"] = dirs[1]
        os.environ["JUPYTER_CONFIG_PATH"] = dirs[2]
        spell = ncase % 5
        if spell in (1, 2):
            # the directories spelled the way docker-compose / systemd / IDE environment blocks hand them over: with an
            # unexpanded ~ or $VARIABLE (the config loader expands both)
            os.environ["HOME"] = root
            os.environ["VMON_CFG_ANCHOR"] = root
            rel1, rel2 = os.path.relpath(dirs[1], root), os.path.relpath(dirs[2], root)
            if not rel1.startswith("..") and not rel2.startswith(".."):
                os.environ["JUPYTER_CONFIG_DIR"] = ("~/" + rel1) if spell == 1 else ("$VMON_CFG_ANCHOR/" + rel1)
                os.environ["JUPYTER_CONFIG_PATH"] = ("$VMON_CFG_ANCHOR/" + rel2) if spell == 1 else ("~/" + rel2)
                col.count("config_dirs_spelled_with_unexpanded_tilde_or_variable")
        os.chdir(dirs[0])
        wit = {"entry": entry, "files": files, "focus": focus, "flags": flags, "argv": argv}
        try:
            want_cfg = M.effective(entry, files)
            want_ns = M.effective(entry, files, flags)
            # what `nbdime --config` (all entry points) or `<command> --config` (one) do in a process that goes on to
            # resolve options afterwards: the listing must not leak anything into later answers
            ncase += 1
            listing = {1: list(cfg.entrypoint_configurables), 2: [entry]}.get(ncase % 4, [])
            for ep in listing:
                try:
                    cfg.build_config(ep, True)
                    col.count("listing_mode_calls_before_a_judged_call")
                except Exception as e:
                    key, tmpl = nbd.exc_key(e)
                    col.violation("listing-mode-raised:%s" % key, "build_config(%r, include_none=True): %s" % (ep, str(e)[:200]), wit, "build_config")
            try:
                got = cfg.build_config(entry)
            except Exception as e:
                key, tmpl = nbd.exc_key(e)
                col.violation("build_config-raised:%s" % key, str(e)[:200], wit, "build_config")
                continue
            col.mon("build_config")
            for opt, w in want_cfg.items():
                g = got.get(opt, None)
                if opt == "Ignore" and g is None:
                    g = {}      # empty mappings are pruned from the built config
                if opt == "log_level" and opt not in got:
                    g = "INFO" if w == "INFO" else "<absent>"
                if opt == "workdirectory" and w == "<cwd>":
                    continue
                if opt == "id" and opt not in got:
                    continue
                if opt == "use_filter" and opt not in got:
                    g = False       # not listed among the defaults; the parsers' own default is False
                if canon(g) != canon(w):
                    col.violation(classify(entry, opt, files, w, g), "build_config(%s)[%s] = %r, documented rule gives %r (deciding section %s)" % (
                        entry, opt, g, w, M.deciding_section(entry, files, opt)), wit, "build_config")
            if entry in PARSER_ENTRIES:
                out, err = io.StringIO(), io.StringIO()
                try:
                    with contextlib.redirect_stdout(out), contextlib.redirect_stderr(err):
                        ns = parser_namespace(entry, argv)
                except SystemExit as e:
                    col.count("parser_rejected_arguments")
                    ns = None
                except Exception as e:
                    key, tmpl = nbd.exc_key(e)
                    col.violation("parser-raised:%s" % key, "%s argv=%s: %s" % (entry, argv, str(e)[:150]), wit, "parser")
                    ns = None
                finally:
                    nbd.quiet_logging()
                    dn.reset_notebook_differ()
                if ns:
                    col.mon("parser_namespace")
                    for opt, w in want_ns.items():
                        if opt == "Ignore" or (opt == "workdirectory" and w == "<cwd>"):
                            continue
                        if opt not in ns:
                            continue
                        g = ns[opt]
                        if canon(g) != canon(w):
                            col.violation(classify(entry, opt, files, w, g), "%s parser namespace %s = %r, documented rule gives %r (flags %s, deciding section %s)" % (
                                entry, opt, g, w, flags, M.deciding_section(entry, files, opt)), wit, "parser")
        finally:
            os.chdir(home)
        # non-trivial?
        merged_by_opt = {}
        for f in files:
            for sec, o in f.items():
                for k, v in o.items():
                    merged_by_opt.setdefault(k, set()).add((sec, canon(v)))
        multi = any(len({v for s, v in sv}) >= 2 for sv in merged_by_opt.values())
        flagover = any(M.deciding_section(entry, files, o) is not None for o in flags)
        if multi or flagover:
            col.nt(chash(entry, files, flags))
            col.count("entry:" + entry)
            if flagover:
                col.count("flag_overrides_config")
        if len(col.samples) < 2 and multi:
            col.sample({"entry": entry, "files_cwd_user_system": files, "flags": flags, "expected": {k: want_ns[k] for k in focus if k in want_ns}})
    return col.result()
