"""C12 Diffing is a pure function of its inputs: no dependence on process history."""
import json
import os
import random
import subprocess
import sys

from ..collect import Collector
from ..canon import chash, canon, to_plain

ID = "C12"
LEVEL = "exploration"
RULE = ("histories of 5-60 calls executed in one long-lived process: diff_notebooks, merge_notebooks (several strategies), generic diff, generic decide_merge with caller-supplied strategy tables (incl. the documented 'fail' strategy that raises inside the line-wise string merge), "
        "and ignore-configuration calls (set_notebook_diff_targets, set_notebook_diff_ignores, flags parsed by the real nbdiff "
        "ConfigBackedParser + process_diff_flags, reset_notebook_differ) over a pool of notebooks whose metadata / application/json "
        "values at one path are a list of lists in one notebook and a list of objects (or an object) in another, same key being list in "
        "one cell and dict in the next, texts that re-appear in other contexts. Every diff/merge op is re-executed in a freshly started "
        "interpreter that replays only the configuration ops in force (none after a reset) and the canonical result or (exception type, "
        "message) is compared. No state hygiene is applied in this check. After every op the global tables (notebook_predicates, "
        "notebook_differs key sets, _merge_strings.recursion, cwd) are snapshotted: distinct snapshots = states seen. "
        "Non-trivial: an op preceded by >= 1 earlier diff/merge op touching a notebook that shares a metadata/JSON path shape; distinct by "
        "(history prefix hash, op).")
FLOOR = {"quick": 300, "thorough": 6000}
REQUIRED_MONITORS = ("fresh_compare", "state_watch")
ASSUMPTIONS = ["fresh process gets the same PATH, cwd, environment and PYTHONHASHSEED", "marker cells get random ids: compared after blanking marker ids",
               "configuration ops are replayed in the fresh process because the diff is a function of 'the ignore options in force'"]
NSHARDS = 16


def plan(tier, seed):
    if tier == "quick":
        return [{"histories": 3, "maxlen": 22, "timeout": 1200} for i in range(NSHARDS)]
    return [{"histories": 40, "maxlen": 60, "timeout": 3300} for i in range(NSHARDS)]


# ---- op execution (shared by long-lived and fresh process) ----------------------
def blank_markers(x):
    if isinstance(x, dict):
        if x.get("cell_type") == "markdown" and isinstance(x.get("source"), str) and x["source"].startswith('<span style="color:red"><b>') and "id" in x:
            x = dict(x)
            x["id"] = "MARKER"
        return {k: blank_markers(v) for k, v in x.items()}
    if isinstance(x, (list, tuple)):
        return [blank_markers(v) for v in x]
    return x


def run_op(op):
    """returns ('ok', canonical result) or ('exc', type, message)"""
    from .. import nbd
    from ..gen_nb import to_node
    import nbdime.diffing.notebooks as dn
    try:
        kind = op["op"]
        if kind == "diff_notebooks":
            d = nbd.diff_notebooks(to_node(op["A"]), to_node(op["B"]))
            return ["ok", canon(to_plain(d))]
        if kind == "merge_notebooks":
            from ..workloads import merge_args
            m, dec = nbd.merge_notebooks(to_node(op["base"]), to_node(op["local"]), to_node(op["remote"]), merge_args(op["config"]))
            nbd.quiet_logging()
            return ["ok", canon(blank_markers(to_plain([m, dec])))]
        if kind == "diff":
            return ["ok", canon(to_plain(nbd.diff(op["a"], op["b"])))]
        if kind == "decide_merge":
            # generic public API with a caller-supplied strategy table; with the documented "fail" strategy on a
            # string path a real line conflict raises RuntimeError *inside* the line-wise string merge
            from nbdime.utils import Strategies
            dec = nbd.decide_merge(op["base"], op["local"], op["remote"], Strategies(op["strategies"]))
            return ["ok", canon(to_plain(dec))]
        if kind == "targets":
            dn.set_notebook_diff_targets(**op["kw"])
            return ["cfg"]
        if kind == "ignores":
            dn.set_notebook_diff_ignores(op["mapping"])
            return ["cfg"]
        if kind == "flags":
            import nbdime.nbdiffapp as app
            from nbdime.args import process_diff_flags
            ns = app._build_arg_parser("nbdiff").parse_args(op["flags"] + ["a.ipynb", "b.ipynb"])
            process_diff_flags(ns)
            nbd.quiet_logging()
            return ["cfg"]
        if kind == "reset":
            dn.reset_notebook_differ()
            return ["cfg"]
        raise ValueError(kind)
    except Exception as e:
        return ["exc", type(e).__name__, str(e)[:300]]


def fresh_main(path):
    import warnings
    import logging
    warnings.simplefilter("ignore")
    from .. import nbd
    nbd.quiet_logging()
    with open(path) as f:
        job = json.load(f)
    for c in job["config_ops"]:
        run_op(c)
    res = run_op(job["op"])
    sys.stdout.write("VMON-RESULT " + json.dumps(res) + "\n")


def fresh(job, tmp, idx):
    p = os.path.join(tmp, "job-%d.json" % idx)
    if idx % 3 == 2 and job["op"]["op"] in ("diff_notebooks", "merge_notebooks", "diff"):
        # the fresh interpreter is handed the same JSON documents with another member order inside every object:
        # "depends only on those two notebooks" - JSON objects are unordered
        from ..workloads import shuffle_keys
        rr = random.Random(idx)
        job = dict(job, op={k: (shuffle_keys(v, rr) if k in ("A", "B", "a", "b", "base", "local", "remote") else v) for k, v in job["op"].items()})
    with open(p, "w") as f:
        json.dump(job, f)
    pr = subprocess.run([sys.executable, "-m", "vmon.props.c12", "--fresh", p], capture_output=True, timeout=300, cwd=os.getcwd())
    for line in pr.stdout.decode(errors="replace").splitlines():
        if line.startswith("VMON-RESULT "):
            return json.loads(line[len("VMON-RESULT "):])
    return ["harness-failure", pr.returncode, pr.stderr.decode(errors="replace")[-300:]]


# ---- history generation ------------------------------------------------------------
def shape_paths(x, path="", acc=None):
    """(path, kind) for every container met below metadata / application/json"""
    acc = acc if acc is not None else set()
    if isinstance(x, dict):
        acc.add(path)
        for k, v in x.items():
            shape_paths(v, path + "/" + k, acc)
    elif isinstance(x, list):
        acc.add(path)
        for v in x:
            shape_paths(v, path + "/*", acc)
    return acc


def nb_paths(nb):
    acc = set()
    shape_paths(nb.get("metadata", {}), "/metadata", acc)
    for c in nb["cells"]:
        shape_paths(c.get("metadata", {}), "/cells/*/metadata", acc)
        for o in c.get("outputs", []):
            if "data" in o:
                for k, v in o["data"].items():
                    if k.endswith("json"):
                        shape_paths(v, "/cells/*/outputs/*/data/" + k, acc)
    return acc


def hostile_pool(gen, n):
    """notebooks sharing metadata paths with different shapes"""
    r = gen.rng
    pool = []
    shapes = [lambda: [[1, 2], [3]], lambda: [{"k": 1}, {"k": 2}], lambda: {"k": [1, 2]}, lambda: [1, "a", [2], {"z": 0}],
              lambda: [[{"d": 1}]], lambda: "text\nmore\n", lambda: {"k": {"k": [[]]}}]
    for i in range(n):
        nb = gen.notebook(ncells=r.choice([1, 2, 3, 4]))
        for key in ("x", "y"):
            if r.random() < 0.8:
                nb["metadata"][key] = r.choice(shapes)()
        for c in nb["cells"]:
            if r.random() < 0.6:
                c["metadata"]["x"] = r.choice(shapes)()
            for o in c.get("outputs", []):
                if "data" in o and r.random() < 0.5:
                    o["data"]["application/json"] = r.choice(shapes)()
        pool.append(nb)
    return pool


def revision_chain(gen):
    """revisions of ONE 4.5 notebook: cell ids survive from revision to revision while sources, outputs and the
    neighbourhood change - a base cell is replaced by two similar-source candidates (new ids) whose outputs are
    re-run / swapped in the next revision.  Any verdict remembered per id or per text would be stale."""
    import copy
    r = gen.rng
    n0 = gen.notebook(5, ncells=0)
    for j in range(r.choice([3, 4, 5])):
        c = gen.cell(5, "code")
        c["source"] = "\n".join("step_%d_%d = compute(%d)  # revision chain" % (j, i, r.randrange(100)) for i in range(4)) + "\n"
        c["outputs"] = [{"output_type": "stream", "name": "stdout", "text": "result of step %d: %d\nmore text %d\n" % (j, r.randrange(1000), j)}]
        n0["cells"].append(c)
    k = r.randrange(len(n0["cells"]))
    victim = n0["cells"][k]

    def candidate(tag, similar_out):
        c = copy.deepcopy(victim)
        c["id"] = gen.new_id()
        c["source"] = victim["source"].replace("compute", "compute_" + tag, 1)
        if similar_out:
            c["outputs"] = copy.deepcopy(victim["outputs"])
            c["outputs"][0]["text"] += "tail %s\n" % tag
        else:
            c["outputs"] = [{"output_type": "stream", "name": "stderr", "text": "completely different output %s %d\n" % (tag, r.randrange(1000))},
                            {"output_type": "error", "ename": "ValueError", "evalue": tag, "traceback": ["tb " + tag]}]
        return c
    n1 = copy.deepcopy(n0)
    ca, cb = candidate("a", True), candidate("b", False)
    n1["cells"][k:k + 1] = [ca, cb]
    n2 = copy.deepcopy(n1)
    # re-run: the two candidates swap the kind of outputs they carry (same ids, same sources)
    n2["cells"][k]["outputs"], n2["cells"][k + 1]["outputs"] = copy.deepcopy(cb["outputs"]), copy.deepcopy(ca["outputs"])
    n3 = copy.deepcopy(n2)
    n3["cells"][k]["outputs"] = []
    revs = [n0, n1, n2, n3]
    ops = []
    order = [(0, 1), (0, 2), (0, 1), (0, 3), (1, 2), (0, 2), (2, 0), (0, 1)]
    r.shuffle(order)
    for a, b in order[: r.choice([3, 4, 6])]:
        ops.append({"op": "diff_notebooks", "A": revs[a], "B": revs[b]})
    if r.random() < 0.5:
        ops.insert(r.randrange(len(ops)), {"op": "merge_notebooks", "base": n0, "local": n1, "remote": n2,
                                           "config": {"merge": "inline", "input": None, "output": None, "ignore_transients": True}})
    return ops


def wide_document_pattern(gen, pool):
    """ignore options in force, a small diff, then a diff of two notebooks with hundreds of distinct metadata
    paths (saved widget state: every model id is its own JSON path, so the per-path tables of the process grow by
    hundreds of entries), then the small diff again - it must still answer like a fresh process"""
    import copy
    from ..gen_edit import mutate
    from ..gen_nb import validate_nb
    r = gen.rng
    cfg = r.choice([{"op": "flags", "flags": r.choice([["-s"], ["-S"], ["-O"], ["-o", "-m"], ["-D"], ["-M", "-I"]])},
                    {"op": "targets", "kw": {k: r.random() < 0.5 for k in ("sources", "outputs", "attachments", "metadata", "identifier", "details")}},
                    {"op": "ignores", "mapping": {r.choice(["/cells/*/outputs", "/cells/*/source", "/cells/*/metadata"]): True}}])
    a = r.choice(pool)
    b, _ = mutate(a, gen, steps=3)
    if validate_nb(b):
        b = r.choice(pool)
    small = {"op": "diff_notebooks", "A": a, "B": b}
    wide_a = copy.deepcopy(r.choice(pool))
    n = r.choice([60, 130, 130, 250])
    state = {}
    for i in range(n):
        state["model%04d%s" % (i, gen.new_id()[:4])] = {"model_name": "IntSliderModel", "model_module": "@jupyter-widgets/controls",
                                                        "state": {"description": "slider %d" % i, "layout": "IPY_MODEL_%d" % i, "style": {"handle_color": "red"}}}
    wide_a["metadata"]["widgets"] = {"application/vnd.jupyter.widget-state+json": {"version_major": 2, "version_minor": 0, "state": state}}
    wide_b = copy.deepcopy(wide_a)
    st = wide_b["metadata"]["widgets"]["application/vnd.jupyter.widget-state+json"]["state"]
    for k in r.sample(sorted(st), 5):
        st[k]["state"]["description"] += " moved"
    del st[r.choice(sorted(st))]
    out = [cfg, small, {"op": "diff_notebooks", "A": wide_a, "B": wide_b}, copy.deepcopy(small)]
    if r.random() < 0.5:
        rm, _ = mutate(a, gen, steps=2)
        if not validate_nb(rm):
            out.append({"op": "merge_notebooks", "base": a, "local": b, "remote": rm, "config": {"merge": "inline", "input": None, "output": None, "ignore_transients": True}})
    return out


def configure_after_use_pattern(gen, pool):
    """the process has ALREADY diffed notebooks (code cells aligned, outputs compared: the per-path tables hold
    looked-up defaults) when the ignore options are set; the next diff compares outputs that differ inside values of
    several kinds - text, a multi-line string under a +json mime type, JSON containers, output metadata - and must
    answer like a fresh process given the same options"""
    import copy
    from ..gen_nb import validate_nb
    r = gen.rng
    ec = r.randrange(1, 9)
    script = "".join("(function(root) { load(%d); })(window);\n" % i for i in range(r.choice([3, 6])))
    out = {"output_type": r.choice(["display_data", "execute_result"]), "metadata": {"isolated": True},
           "data": {"text/plain": "<Loader>", "application/vnd.holoviews_load.v0+json": script,
                    "application/vnd.custom+json": r.choice([script, {"k": [1, 2]}, [script]]), "text/html": "<div>\n<p>x</p>\n</div>"}}
    if out["output_type"] == "execute_result":
        out["execution_count"] = ec
    cell = {"cell_type": "code", "metadata": {}, "source": "hv.extension('bokeh')\n", "execution_count": ec, "outputs": [out, {"output_type": "stream", "name": "stdout", "text": "ready\n"}]}
    a = copy.deepcopy(r.choice(pool))
    m = a["nbformat_minor"]
    if m >= 5:
        cell["id"] = gen.new_id()
    a["cells"].insert(0, cell)
    b = copy.deepcopy(a)
    bo = b["cells"][0]["outputs"][0]
    for key in r.sample(sorted(bo["data"]), r.choice([1, 2])):
        v = bo["data"][key]
        if isinstance(v, str):
            bo["data"][key] = v.replace("load(1)", "load(1, true)").replace("<p>x</p>", "<p>y</p>").replace("<Loader>", "<Loader 2>")
        elif isinstance(v, list):
            bo["data"][key] = v + ["more"]
        else:
            bo["data"][key] = dict(v, extra=1)
    if r.random() < 0.5:
        b["cells"][0]["execution_count"] = ec + 1
        if "execution_count" in bo:
            bo["execution_count"] = ec + 1
    if validate_nb(a) or validate_nb(b):
        return []
    warm = {"op": "diff_notebooks", "A": a, "B": copy.deepcopy(a) if r.random() < 0.5 else b}
    cfg = r.choice([{"op": "flags", "flags": ["-D"]}, {"op": "targets", "kw": {"sources": True, "outputs": True, "attachments": True, "metadata": True, "identifier": True, "details": False}},
                    {"op": "ignores", "mapping": {"/cells/*/outputs/*": ["execution_count"]}}, {"op": "ignores", "mapping": {"/cells/*/outputs/*": ["metadata"], "/cells/*": ["execution_count"]}},
                    {"op": "flags", "flags": ["-M"]}])
    return [warm, cfg, {"op": "diff_notebooks", "A": a, "B": b}]


def make_history(gen, maxlen):
    from ..gen_edit import mutate
    from ..gen_nb import validate_nb
    from ..workloads import covering_configs
    r = gen.rng
    pool = [nb for nb in hostile_pool(gen, 6) if not validate_nb(nb)]
    if len(pool) < 2:
        return []
    n = r.randrange(5, maxlen + 1)
    ops = []
    if r.random() < 0.25:
        ops.extend(wide_document_pattern(gen, pool))
    if r.random() < 0.3:
        ops.extend(configure_after_use_pattern(gen, pool))
    if r.random() < 0.5:
        # the same two notebooks compared in BOTH directions, B->A first (a review tool showing "what would undo this"),
        # with sources whose similarity sits near the alignment thresholds; title cell + few cells
        from ..workloads import valid_pair
        from ..gen_nb import validate_nb as _v
        for _ in range(r.choice([1, 2])):
            cls_, a_, b_, rec_, w_ = valid_pair(gen, cls="sim_straddle")
            if cls_ is None:
                continue
            for nb_ in (a_, b_):
                nb_["cells"] = nb_["cells"][:r.choice([1, 2, 3])]
            if _v(a_) or _v(b_):
                continue
            from ..workloads import asymmetric_similarity_sources
            xy = asymmetric_similarity_sources(gen) if r.random() < 0.6 else None
            if xy:
                # the one code cell's similarity is above the alignment threshold in one argument order and below it in
                # the other (difflib's ratio is not symmetric)
                a_["cells"][0]["source"], b_["cells"][0]["source"] = xy
                a_["cells"], b_["cells"] = a_["cells"][:1], b_["cells"][:1]
                for nb_ in (a_, b_):
                    nb_["cells"].insert(0, {"cell_type": "markdown", "metadata": {}, "source": "# Title"})
                    if nb_["nbformat_minor"] >= 5:
                        nb_["cells"][0]["id"] = "title-cell"
                if _v(a_) or _v(b_):
                    continue
            ops.append({"op": "diff_notebooks", "A": b_, "B": a_})
            ops.append({"op": "diff_notebooks", "A": a_, "B": b_})
    chain = revision_chain(gen) if r.random() < 0.6 else []
    for _ in range(n):
        if chain and r.random() < 0.3:
            ops.append(chain.pop(0))
            continue
        c = r.random()
        if c < 0.45:
            a = r.choice(pool)
            if r.random() < 0.6:
                b, _rec = mutate(a, gen, steps=r.choice([1, 2]))
                # keep the same metadata keys but possibly another shape
                if r.random() < 0.4:
                    other = r.choice(pool)
                    for key in ("x", "y"):
                        if key in other["metadata"]:
                            b["metadata"][key] = other["metadata"][key]
            else:
                b = r.choice(pool)
            if validate_nb(b):
                continue
            ops.append({"op": "diff_notebooks", "A": a, "B": b})
        elif c < 0.6:
            base = r.choice(pool)
            l, _ = mutate(base, gen, steps=r.choice([1, 2]))
            rm, _ = mutate(base, gen, steps=r.choice([1, 2]))
            if validate_nb(l) or validate_nb(rm):
                continue
            ops.append({"op": "merge_notebooks", "base": base, "local": l, "remote": rm, "config": r.choice(covering_configs(r, 5))})
        elif c < 0.7:
            from .. import gen_json as G
            a = G.rand_value(r)
            if not isinstance(a, (dict, list, str)):
                continue
            ops.append({"op": "diff", "a": a, "b": G.rand_edit(r, a)})
        elif c < 0.74:
            lines = ["this is line number %d of a text\n" % j for j in range(r.randrange(2, 6))]
            j = r.randrange(len(lines))
            ll, rl = list(lines), list(lines)
            if r.random() < 0.5:      # similar rewrites of one line (patch/patch) ...
                ll[j] = lines[j].rstrip("\n") + " local %d\n" % r.randrange(9)
                rl[j] = lines[j].rstrip("\n") + " remote %d\n" % r.randrange(9)
            else:                      # ... or dissimilar replacements (replace/replace)
                ll[j] = "local %d\n" % r.randrange(9)
                rl[j] = "remote %d\n" % r.randrange(9)
            ops.append({"op": "decide_merge", "base": {"s": "".join(lines), "k": 1}, "local": {"s": "".join(ll), "k": 1},
                        "remote": {"s": "".join(rl), "k": r.choice([1, 2])},
                        "strategies": r.choice([{"/s": "fail", "/s/*": "fail"}, {"/s": "fail", "/s/*": "fail"}, {}, {"/s": "use-local"}, {"/s": "clear"}])})
        elif c < 0.78:
            ops.append({"op": "targets", "kw": {k: r.random() < 0.6 for k in ("sources", "outputs", "attachments", "metadata", "identifier", "details")}})
        elif c < 0.85:
            m = {}
            for p in r.sample(["/cells/*/outputs", "/cells/*/metadata", "/metadata", "/cells/*/source", "/cells/*/attachments"], r.randrange(1, 3)):
                m[p] = r.choice([True, True, False])
            if r.random() < 0.5:
                m["/cells/*"] = ["execution_count"]
            if r.random() < 0.3:
                m["/cells/*/metadata"] = ["tags", "x"]
            ops.append({"op": "ignores", "mapping": m})
        elif c < 0.92:
            ops.append({"op": "flags", "flags": r.choice([["-s"], ["-S"], ["-o", "-m"], ["-O", "-A"], ["-D"], [], ["-M", "-I"], ["-s", "-o", "-a", "-m", "-i", "-d"],
                                                             ["-s", "-o", "-a", "-m", "-i", "-d"], ["-S", "-O", "-A", "-M", "-I", "-D"]])})
        else:
            ops.append({"op": "reset"})
    return ops


def run_shard(spec):
    from .. import nbd
    from ..gen_nb import NBGen
    col = Collector(ID)
    r = random.Random(spec["seed"])
    tmp = os.path.join(os.environ.get("VMON_SCRATCH", "/tmp"), "c12-%s" % spec.get("shard", 0))
    os.makedirs(tmp, exist_ok=True)
    os.chdir(tmp)
    states = set()
    if "replay" in spec:
        c = spec["replay"]["case"]
        nbd.hygiene()
        judge_history(col, nbd, c["history"], tmp, states, only_last=True)
        return col.result()
    for h in range(spec["histories"]):
        gen = NBGen(r, exotic=(h % 3 == 0))
        ops = make_history(gen, spec["maxlen"])
        if not ops:
            continue
        # each history starts from the import-time state, then NO hygiene inside the history
        nbd.hygiene()
        judge_history(col, nbd, ops, tmp, states)
    col.count("distinct_global_states_seen", len(states))
    return col.result()


def judge_history(col, nbd, ops, tmp, states, only_last=False):
    config_ops = []
    seen_paths = set()
    for i, op in enumerate(ops):
        res = run_op(op)
        snap = nbd.state_snapshot()
        col.mon("state_watch")
        states.add(json.dumps([snap["predicates"], snap["differs"], snap["recursion"]], sort_keys=True))
        if snap["recursion"]:
            col.violation("recursion-flag-left-set", "after op %d (%s)" % (i, op["op"]), {"history": ops[: i + 1]}, "state")
        if snap["cwd"] != os.getcwd() or os.getcwd() != tmp:
            col.violation("cwd-changed", "%s" % snap["cwd"], {"history": ops[: i + 1]}, "state")
        if len(snap["predicates"]) > 2:
            col.count("observation:predicate_table_grew_by_lookup")
        if res[0] == "cfg":
            if op["op"] == "reset":
                config_ops = []
            else:
                if op["op"] == "targets" or (op["op"] == "flags" and op["flags"]):
                    # a call that states all six categories SUPERSEDES every earlier such call ("the ignore options in
                    # force" are the latest ones): the fresh interpreter is given only the latest
                    config_ops = [o for o in config_ops if o["op"] not in ("targets", "flags")]
                config_ops.append(op)
            col.count("cfg_op:" + op["op"])
            continue
        if res[0] == "exc" and op["op"] in ("targets", "ignores", "flags", "reset"):
            config_ops.append(op)
            continue
        if only_last and i != len(ops) - 1:
            continue
        col.eval()
        fr = fresh({"config_ops": config_ops, "op": op}, tmp, i)
        if fr[0] == "harness-failure":
            col.inconc("fresh interpreter failed: %r" % (fr,))
            continue
        col.mon("fresh_compare")
        col.count("compared:" + op["op"])
        if res != fr:
            if res[0] == "exc" and fr[0] == "ok":
                mech = "raises-only-after-history:%s" % res[1]
            elif res[0] == "ok" and fr[0] == "exc":
                mech = "raises-only-in-fresh-process:%s" % fr[1]
            elif res[0] == "exc" and fr[0] == "exc":
                mech = "different-exception-after-history"
            else:
                mech = "result-differs-from-fresh-process:%s" % op["op"]
            where = ""
            if res[0] == "ok" and fr[0] == "ok":
                try:
                    from ..canon import first_difference
                    where = " first difference: " + first_difference(json.loads(res[1]), json.loads(fr[1]))[:200]
                except Exception:
                    pass
            col.violation(mech, "op %d (%s) after %d earlier ops, %d config ops in force %s:%s long-lived=%s fresh=%s" % (
                i, op["op"], i, len(config_ops), [(o["op"], o.get("flags")) for o in config_ops][:4], where, str(res)[:80], str(fr)[:80]), {"history": ops[: i + 1]}, "history-independence")
        if res[0] == "exc":
            col.count("op_raised_in_both" if fr[0] == "exc" else "op_raised_only_long_lived")
        # non-trivial: an earlier op touched a shared path shape
        paths = set()
        for key in ("A", "B", "base", "local", "remote"):
            if key in op and isinstance(op[key], dict) and "cells" in op[key]:
                paths |= nb_paths(op[key])
        if i > 0 and (paths & seen_paths or op["op"] in ("diff", "decide_merge")):
            col.nt(chash(ops[: i + 1]))
        seen_paths |= paths
        if len(col.samples) < 2 and i >= 3:
            col.sample({"history_ops": [o["op"] for o in ops[: i + 1]], "config_ops_in_force": [o["op"] for o in config_ops],
                        "compared_op": op["op"], "equal_to_fresh": res == fr})


if __name__ == "__main__":
    if len(sys.argv) >= 3 and sys.argv[1] == "--fresh":
        fresh_main(sys.argv[2])
