"""C13 Diff, patch, merge and rendering never modify their inputs."""
import io
import os
import random

from ..collect import Collector
from ..canon import chash, canon, to_plain, first_difference, NotPlainJSON
from .. import gen_json as G

ID = "C13"
LEVEL = "exploration"
RULE = ("every call of diff, diff_notebooks, patch, patch_notebook, decide_merge, decide_notebook_merge, merge_notebooks, "
        "apply_decisions (twice on the same objects), pretty_print_notebook / _notebook_diff / _merge_decisions / _diff over slices of "
        "the C01/C02/C03/C16 streams; canonical type-strict JSON of every argument is snapshotted before the call and compared after "
        "normal return or exception. On a 1:5 sample the returned object is then destroyed (sentinel appended to every reachable list, "
        "sentinel key added to every reachable dict) and the arguments are re-canonicalised (aliasing clause). "
        "Non-trivial: a call with >= 1 non-empty container argument that returned normally; distinct by (function, hash of args).")
FLOOR = {"quick": 3000, "thorough": 60000}
REQUIRED_MONITORS = ("immut",)
ASSUMPTIONS = ["key order is not JSON content (canonical form sorts keys); the output differ's pop/restore of 'data' is therefore only an observation",
               "objects the merger itself created (MergeDecisionBuilder internals) are not inputs"]
OPTIMIZED_SHARDS = (0,)
NSHARDS = 16
SENT = "__vmon_sentinel__"


def plan(tier, seed):
    if tier == "quick":
        return [{"pairs": 60, "triples": 36, "generic": 150, "timeout": 900} for i in range(NSHARDS)]
    return [{"pairs": 1200, "triples": 450, "generic": 3000, "timeout": 3000} for i in range(NSHARDS)]


def snap(args):
    out = []
    for a in args:
        try:
            out.append(canon(_plainish(a)))
        except NotPlainJSON:
            out.append(None)
    return out


def _plainish(a):
    import argparse
    if isinstance(a, argparse.Namespace):
        return {k: v for k, v in vars(a).items() if isinstance(v, (str, int, float, bool, type(None)))}
    return a


def key_order(x, acc):
    if isinstance(x, dict):
        acc.append(tuple(x.keys()))
        for v in x.values():
            key_order(v, acc)
    elif isinstance(x, (list, tuple)):
        for v in x:
            key_order(v, acc)
    return acc


def poison(x, seen=None):
    """destroy a result object in place: every reachable mutable container is changed"""
    seen = seen if seen is not None else set()
    if id(x) in seen:
        return
    seen.add(id(x))
    if isinstance(x, dict):
        for v in list(x.values()):
            poison(v, seen)
        try:
            x[SENT] = SENT
        except Exception:
            pass
    elif isinstance(x, list):
        for v in list(x):
            poison(v, seen)
        x.append(SENT)
    elif isinstance(x, tuple):
        for v in x:
            poison(v, seen)


class Mon:
    def __init__(self, col, r):
        self.col = col
        self.r = r
        self.n = 0

    def call(self, name, argnames, fn, *args, alias=True, **kw):
        col = self.col
        self.n += 1
        col.eval()
        before = snap(args)
        order_before = [key_order(a, []) for a in args] if self.n % 7 == 0 else None
        exc = None
        res = None
        try:
            res = fn(*args, **kw)
        except Exception as e:
            exc = e
        after = snap(args)
        col.mon("immut")
        col.count("calls:" + name)
        case = None
        for an, b, a_, arg in zip(argnames, before, after, args):
            if b is None:
                continue
            if b != a_:
                case = case or {"function": name, "args": {n_: _safe(x) for n_, x in zip(argnames, args)}, "raised": repr(exc)[:100]}
                import json
                col.violation("mutated:%s:%s" % (name, an),
                              "argument %s of %s changed: %s" % (an, name, first_difference(json.loads(b), json.loads(a_)) if a_ else "not JSON any more"),
                              {"function": name, "before": {n_: (json.loads(s) if s else None) for n_, s in zip(argnames, before)}}, "inputs-unchanged")
        if order_before is not None and exc is None:
            if [key_order(a, []) for a in args] != order_before:
                col.count("observation:key_order_changed:" + name)
        nonempty = any(isinstance(a, (dict, list)) and len(a) for a in args)
        if exc is None and nonempty:
            col.nt(chash(name, [b for b in before if b is not None]))
        if exc is not None:
            col.count("raised:" + name)
        if alias and exc is None and res is not None and self.n % 5 == 0:
            col.mon("alias_probe")
            import copy
            poison(res)
            after2 = snap(args)
            for an, b, a_ in zip(argnames, before, after2):
                if b is not None and b != a_:
                    import json
                    col.violation(alias_mechanism(name, an),
                                  "mutating the result of %s changed argument %s" % (name, an),
                                  {"function": name, "before": {n_: (json.loads(s) if s else None) for n_, s in zip(argnames, before)}}, "aliasing")
            return None   # result destroyed
        return res


def alias_mechanism(fn, arg):
    """root causes, not call sites: diff entries reference the objects of the target document;
    patching inserts the objects carried by the diff"""
    if (fn in ("diff", "diff_notebooks") and arg == "b") or \
       (fn in ("decide_merge", "decide_notebook_merge", "merge_notebooks") and arg in ("local", "remote")):
        return "alias:diff-entries-share-target-document-values"
    if fn in ("decide_notebook_merge", "merge_notebooks") and arg == "base":
        return "alias:conflict-marker-diffs-share-base-values"
    if fn in ("patch", "patch_notebook", "apply_decisions") and arg in ("diff", "decisions"):
        return "alias:patch-result-shares-diff-values"
    return "alias:%s:result-shares-%s" % (fn, arg)


def _safe(x):
    try:
        return to_plain(_plainish(x))
    except Exception:
        return repr(x)[:200]


def caller_ordered(d, r):
    """a copy of a diff as a CALLER may have assembled it: the entries of every mapping diff (string keys) in another
    order than the sorted one nbdime's own builders produce - the order of a mapping diff's entries carries no meaning"""
    import copy
    d = copy.deepcopy(d)

    def walk(lst):
        if not isinstance(lst, list):
            return
        for e in lst:
            if isinstance(e, dict) and isinstance(e.get("diff"), list):
                walk(e["diff"])
        if len(lst) >= 2 and all(isinstance(e, dict) and isinstance(e.get("key"), str) for e in lst):
            lst.reverse()
            if r.random() < 0.5:
                r.shuffle(lst)
    walk(d)
    return d


def run_shard(spec):
    from .. import nbd
    from ..gen_nb import NBGen, to_node
    from ..workloads import valid_pair, valid_triple, covering_configs, merge_args
    import nbdime.prettyprint as pp
    col = Collector(ID)
    r = random.Random(spec["seed"])
    os.chdir(os.environ.get("VMON_SCRATCH", "/tmp"))
    mon = Mon(col, r)
    if "replay" in spec:
        col.inconc("C13 witnesses carry the arguments; replay by calling the named function on case['before']")
        c = spec["replay"]["case"]
        fn = {"diff": nbd.diff, "patch": nbd.patch, "diff_notebooks": nbd.diff_notebooks}.get(c["function"])
        if fn:
            names = list(c["before"].keys())
            args = [to_node(v) if isinstance(v, dict) and "cells" in v else (nbd.to_diffentry_dicts(v) if n_ == "diff" else v) for n_, v in c["before"].items()]
            col.inconclusive = []
            mon.n = 4
            mon.call(c["function"], names, fn, *args)
        return col.result()
    # generic
    for _ in range(spec["generic"]):
        a = G.rand_value(r)
        if not isinstance(a, (dict, list, str)):
            continue
        b = G.rand_edit(r, a)
        d = mon.call("diff", ["a", "b"], nbd.diff, a, b, alias=False)
        if d is None:
            continue
        mon.call("diff", ["a", "b"], nbd.diff, a, b)          # alias probe on a second result
        mon.call("patch", ["obj", "diff"], nbd.patch, a, d)
        c = G.rand_edit(r, a)
        mon.call("decide_merge", ["base", "local", "remote"], nbd.decide_merge, a, b, c)
        dec = mon.call("decide_merge", ["base", "local", "remote"], nbd.decide_merge, a, b, c, alias=False)
        if dec is not None and not isinstance(a, str):
            m1 = mon.call("apply_decisions", ["base", "decisions"], nbd.apply_decisions, a, dec, alias=False)
            m2 = mon.call("apply_decisions", ["base", "decisions"], nbd.apply_decisions, a, dec, alias=False)
            if m1 is not None and m2 is not None and canon(m1) != canon(m2):
                col.violation("apply-twice-differs", "second application of the same decisions gave another result", {"base": a, "local": b, "remote": c}, "recompute")
            mon.call("apply_decisions", ["base", "decisions"], nbd.apply_decisions, a, dec)
    # notebook pairs: diff, patch, rendering
    for j in range(spec["pairs"]):
        gen = NBGen(r, exotic=(j % 4 == 0))
        cls, a, b, rec, waste = valid_pair(gen)
        if cls is None:
            continue
        nbd.hygiene()
        na, nb_ = to_node(a), to_node(b)
        d = mon.call("diff_notebooks", ["a", "b"], nbd.diff_notebooks, na, nb_, alias=False)
        if d is None:
            continue
        mon.call("diff_notebooks", ["a", "b"], nbd.diff_notebooks, na, nb_)
        mon.call("patch_notebook", ["nb", "diff"], nbd.patch_notebook, na, d, alias=False)
        mon.call("patch_notebook", ["nb", "diff"], nbd.patch_notebook, na, d)
        cfg = pp.PrettyPrintConfig(out=io.StringIO(), use_color=r.random() < 0.5, use_git=r.random() < 0.5, use_diff=r.random() < 0.5)
        mon.call("pretty_print_notebook", ["nb"], lambda n_: pp.pretty_print_notebook(n_, cfg), na, alias=False)
        mon.call("pretty_print_notebook_diff", ["a", "diff"], lambda x, y: pp.pretty_print_notebook_diff("a.ipynb", "b.ipynb", x, y, cfg), na, d, alias=False)
        mon.call("pretty_print_diff", ["a", "diff"], lambda x, y: pp.pretty_print_diff(x, y, "", cfg), na, d, alias=False)
        if j % 2 == 0:
            d2 = caller_ordered(d, r)
            col.count("diffs_with_caller_ordered_mapping_entries")
            mon.call("pretty_print_notebook_diff", ["a", "diff"], lambda x, y: pp.pretty_print_notebook_diff("a.ipynb", "b.ipynb", x, y, cfg), na, d2, alias=False)
            mon.call("pretty_print_diff", ["a", "diff"], lambda x, y: pp.pretty_print_diff(x, y, "", cfg), na, d2, alias=False)
            mon.call("patch_notebook", ["nb", "diff"], nbd.patch_notebook, na, d2, alias=False)
    # triples: decide, merge, apply, render decisions
    for j in range(spec["triples"]):
        gen = NBGen(r, exotic=(j % 5 == 0))
        # every third triple from the classes that end in the cell-level strategies (marker cells, take-all-inserts,
        # both-sides-inserted): the functions that build NEW cells out of the callers' cells
        want = r.choice(["same_id_insert", "both_insert_lists", "both_insert_dissimilar", "insert_near", "same_frame_insert"]) if j % 3 == 2 else None
        cls, b, l, rm, info, waste = valid_triple(gen, cls=want, minor=(5 if want == "same_id_insert" and r.random() < 0.7 else None))
        if cls is None:
            continue
        for cfg in covering_configs(r, 3) + ([{"merge": "inline", "input": None, "output": None, "ignore_transients": True}] if want else []):
            nbd.hygiene()
            args = merge_args(cfg)
            nb_, nl, nr = to_node(b), to_node(l), to_node(rm)
            dec = mon.call("decide_notebook_merge", ["base", "local", "remote", "args"], nbd.decide_notebook_merge, nb_, nl, nr, args, alias=False)
            res = mon.call("merge_notebooks", ["base", "local", "remote", "args"], nbd.merge_notebooks, nb_, nl, nr, args, alias=False)
            mon.call("merge_notebooks", ["base", "local", "remote", "args"], nbd.merge_notebooks, nb_, nl, nr, args)
            if dec is None:
                continue
            m1 = mon.call("apply_decisions", ["base", "decisions"], nbd.apply_decisions, nb_, dec, alias=False)
            m2 = mon.call("apply_decisions", ["base", "decisions"], nbd.apply_decisions, nb_, dec, alias=False)
            if m1 is not None and m2 is not None and canon(m1) != canon(m2):
                col.violation("apply-twice-differs", "second application of the same decisions gave another result",
                              {"base": b, "local": l, "remote": rm, "config": cfg}, "recompute")
            pc = pp.PrettyPrintConfig(out=io.StringIO(), use_color=False)
            mon.call("pretty_print_merge_decisions", ["base", "decisions"], lambda x, y: pp.pretty_print_merge_decisions(x, y, pc), nb_, dec, alias=False)
            mon.call("apply_decisions", ["base", "decisions"], nbd.apply_decisions, nb_, dec)
            if j % 2 == 0:
                import copy as _copy
                dec2 = _copy.deepcopy(dec)
                for dd in dec2:
                    for side in ("local_diff", "remote_diff", "custom_diff"):
                        if isinstance(dd.get(side), list):
                            dd[side] = caller_ordered(dd[side], r)
                mon.call("pretty_print_merge_decisions", ["base", "decisions"], lambda x, y: pp.pretty_print_merge_decisions(x, y, pc), nb_, dec2, alias=False)
    if len(col.samples) < 1:
        col.sample({"functions_monitored": sorted(k[6:] for k in col.counters if k.startswith("calls:"))})
    return col.result()
