"""C11 Every produced diff is well-formed for its base document and the diff schema."""
import json
import os
import random

from ..collect import Collector
from ..canon import chash, canon, to_plain, NotPlainJSON
from .. import env
from .. import gen_json as G

ID = "C11"
LEVEL = "exploration"
RULE = ("every diff returned by nbdime.diff (exhaustive small lists/dicts/strings + random nested values) and diff_notebooks "
        "(the C01 pair stream), and every local_diff / remote_diff / custom_diff embedded in decisions of merge_notebooks "
        "(the C03 triple stream, 4 configurations each) is checked against the document it was computed from: sorted list ops, "
        "addrange before removerange/patch at one key, no overlap, in bounds, no zero length, dict keys targeted once, add=absent, "
        "remove/replace/patch=present, patches only into containers and never empty; plus diff_format.schema.json and a "
        "type-strict JSON round trip. Non-trivial: a diff with >= 2 entries at some level or depth >= 2, distinct by hash of (base, diff).")
FLOOR = {"quick": 3000, "thorough": 60000}
REQUIRED_MONITORS = ("wf_generic", "wf_notebook", "wf_decision")
ASSUMPTIONS = ["checker vmon/refdiff.py encodes the documented diff format",
               "similar_insert diffs are relative to the other side's inserted value and are schema-checked only",
               "a 'replace' with an equal value is not flagged (not stated by the property)"]
OPTIMIZED_SHARDS = (0,)
NSHARDS = 16


def plan(tier, seed):
    if tier == "quick":
        return [{"i": i, "n": NSHARDS, "list_n": 2, "pairs": 120, "triples": 30, "random": 600, "timeout": 900} for i in range(NSHARDS)]
    return [{"i": i, "n": NSHARDS, "list_n": 3, "pairs": 1500, "triples": 400, "random": 12000, "timeout": 3000} for i in range(NSHARDS)]


def _multi(d):
    if not isinstance(d, list):
        return False
    if len(d) >= 2:
        return True
    return any(isinstance(e, dict) and e.get("op") == "patch" and _multi(e.get("diff")) for e in d)


def check_diff(col, base, d, origin, case, enumerated=False, chars=False):
    """base: plain document the diff applies to. d: diff as returned (DiffEntry objects)."""
    from ..refdiff import wellformed, diff_depth
    from ..oracles import diff_schema, json_roundtrip_strict
    col.mon("wf_" + origin)
    try:
        pd = to_plain(d)
    except NotPlainJSON as e:
        col.violation("diff-not-plain-json", "%s: %s" % (origin, e), case, "json")
        return
    problems, stats = wellformed(base, pd, chars=chars)
    for code, where in problems[:3]:
        col.violation("illformed:%s:%s" % (origin, code.split(":")[0]), "%s at %s in %s diff" % (code, where, origin), dict(case, diff=pd), "structure")
    for (kind, op), n in stats["ops"].items():
        col.count("op:%s:%s" % (kind, op), n)
    col.count("depth:%d" % min(stats["depth"], 6))
    errs = list(diff_schema().iter_errors(pd))
    if errs:
        col.violation("diff-schema:%s" % errs[0].validator, "%s: %s" % (origin, errs[0].message[:150]), dict(case, diff=pd), "schema")
    if not json_roundtrip_strict(d):
        col.violation("diff-json-roundtrip", origin, dict(case, diff=pd), "json")
    if _multi(pd) or diff_depth(pd) >= 2:
        if enumerated:
            col.nt_enum()
        else:
            col.nt(chash(base, pd))


def resolve_for_decision(base, path):
    """sub-document a decision's diffs apply to; (doc, chars) with chars=True when the path
    ends on a line of a string (diffs are then character diffs of that line)."""
    cur = base
    for i, key in enumerate(path):
        if isinstance(cur, str):
            rest = path[i:]
            if len(rest) != 1 or not isinstance(rest[0], int):
                raise KeyError("path continues %r below a string" % (rest,))
            return cur.splitlines(True)[rest[0]], True
        cur = cur[key]
    return cur, False


def run_shard(spec):
    from .. import nbd
    from ..gen_nb import NBGen, to_node
    from ..workloads import valid_pair, valid_triple, covering_configs, merge_args
    col = Collector(ID)
    r = random.Random(spec["seed"])
    scratch = os.environ.get("VMON_SCRATCH", "/tmp")
    os.chdir(scratch)
    if "replay" in spec:
        c = spec["replay"]["case"]
        if "a" in c:
            d = nbd.diff(c["a"], c["b"])
            check_diff(col, c["a"], d, "generic", {"a": c["a"], "b": c["b"]})
        elif "A" in c:
            nbd.hygiene()
            d = nbd.diff_notebooks(to_node(c["A"]), to_node(c["B"]))
            check_diff(col, c["A"], d, "notebook", {"A": c["A"], "B": c["B"]})
        else:
            _merge_case(col, nbd, c["base"], c["local"], c["remote"], c["config"], c.get("class"))
        return col.result()
    i, n = spec["i"], spec["n"]
    k = 0
    spaces = [("lists", list(G.lists_upto(spec["list_n"]))), ("strings", list(G.strings_upto(3))), ("dicts", list(G.dicts_over()))]
    for name, S in spaces:
        for a in S:
            for b in S:
                k += 1
                if k % n != i:
                    continue
                col.eval()
                try:
                    d = nbd.diff(a, b)
                except Exception:
                    col.count("diff_raised(C02's business)")
                    continue
                check_diff(col, a, d, "generic", {"a": a, "b": b}, enumerated=True)
    for _ in range(spec["random"]):
        a = G.rand_value(r)
        if not isinstance(a, (dict, list, str)):
            continue
        b = G.rand_edit(r, a)
        col.eval()
        try:
            d = nbd.diff(a, b)
        except Exception:
            col.count("diff_raised(C02's business)")
            continue
        check_diff(col, a, d, "generic", {"a": a, "b": b})
    # the generic differ under a caller-supplied configuration (a public parameter, used by nbdime's own tests): lists
    # of records aligned by an "id" member, or by Python's == (coarser than JSON equality: 1 == True)
    import operator
    from collections import defaultdict
    from nbdime.diffing.config import DiffConfig
    from nbdime.diffing.generic import diff as generic_diff
    for _ in range(max(40, spec["random"] // 8)):
        n = r.randrange(2, 8)
        a = [{"id": "r%d" % i, "v": r.choice([i, "s%d" % i, [i], {"k": i}]), "flag": r.choice([1, True, 0, False])} for i in range(n)]
        b = [dict(x) for x in a]
        for _e in range(r.randrange(1, 4)):
            k = r.randrange(len(b) + 1)
            c = r.random()
            if c < 0.35:
                b.insert(k, {"id": "new%d" % r.randrange(99), "v": 0, "flag": 1})
            elif c < 0.6 and b:
                del b[min(k, len(b) - 1)]
            elif b:
                it = b[min(k, len(b) - 1)] = dict(b[min(k, len(b) - 1)])
                if r.random() < 0.5:
                    it["v"] = r.choice(["changed", [1, 2], {"k": "c"}])
                else:
                    it["flag"] = {1: True, True: 1, 0: False, False: 0}[it["flag"]] if not isinstance(it["flag"], bool) or r.random() < 0.5 else int(it["flag"])
        mode = r.choice(["by-id", "python-eq"])
        preds = defaultdict(lambda: [operator.__eq__])
        if mode == "by-id":
            preds["/"] = [lambda x, y: isinstance(x, dict) and isinstance(y, dict) and x.get("id") == y.get("id")]
        cfgd = DiffConfig(predicates=preds)
        col.eval()
        try:
            d = generic_diff(a, b, path="", config=cfgd)
        except Exception as e:
            col.count("diff_raised_under_custom_config")
            continue
        col.count("generic_diffs_under_caller_config:" + mode)
        check_diff(col, a, d, "generic", {"a": a, "b": b, "config": mode})
    for j in range(spec["pairs"]):
        gen = NBGen(r, exotic=(j % 3 == 0))
        cls, a, b, rec, waste = valid_pair(gen)
        if cls is None:
            continue
        col.eval()
        nbd.hygiene()
        try:
            d = nbd.diff_notebooks(to_node(a), to_node(b))
        except Exception:
            col.count("diff_raised(C01's business)")
            continue
        check_diff(col, a, d, "notebook", {"A": a, "B": b, "class": cls})
        if len(col.samples) < 2 and 2 <= len(d) <= 4:
            col.sample({"origin": "notebook", "class": cls, "diff": to_plain(d)})
    for j in range(spec["triples"]):
        gen = NBGen(r, exotic=(j % 5 == 0))
        cls, b, l, rm, info, waste = valid_triple(gen)
        if cls is None:
            continue
        for cfg in covering_configs(r, 4):
            col.eval()
            _merge_case(col, nbd, b, l, rm, cfg, cls)
    return col.result()


def _merge_case(col, nbd, b, l, rm, cfg, cls):
    from ..gen_nb import to_node
    from ..workloads import merge_args
    from ..oracles import diff_schema
    nbd.hygiene()
    try:
        decisions = nbd.decide_notebook_merge(to_node(b), to_node(l), to_node(rm), merge_args(cfg))
    except Exception:
        col.count("merge_raised(C03's business)")
        return
    case = {"base": b, "local": l, "remote": rm, "config": cfg, "class": cls}
    for idx, dec in enumerate(decisions):
        path = list(dec["common_path"])
        try:
            sub, chars = resolve_for_decision(b, path)
        except Exception as e:
            col.violation("decision-path-unresolvable", "common_path %r: %r" % (path, e), dict(case, decision=idx), "path")
            continue
        for field in ("local_diff", "remote_diff", "custom_diff"):
            d = dec.get(field)
            if d is None:
                continue
            col.count("decision_diff:" + field)
            check_diff(col, sub, d, "decision", dict(case, decision=idx, field=field, common_path=path, action=dec["action"]), chars=chars)
        si = dec.get("similar_insert")
        if si is not None:
            try:
                errs = list(diff_schema().iter_errors(to_plain(si)))
            except NotPlainJSON:
                errs = ["not plain"]
            if errs:
                col.violation("similar-insert-schema", str(errs[0])[:150], dict(case, decision=idx), "schema")
