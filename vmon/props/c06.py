"""C06 Changes to different cells merge cleanly into exactly both sets of changes."""
import copy
import itertools
import os
import random

from ..collect import Collector
from ..canon import chash, canon, to_plain, seq, first_difference

ID = "C06"
LEVEL = "exploration"
RULE = ("by-construction triples: a base of 2-10 pairwise dissimilar cells (minor 0-5, ids iff 4.5), every cell assigned to owner "
        "local / remote / nobody; the owner applies one action (edit source keeping >=0.8 similarity, edit outputs, edit metadata, "
        "bump execution count, delete, leave); insertions only in gaps whose two neighbours the other side left untouched and never "
        "two sides in one gap. Windows of 4 consecutive cells are enumerated exhaustively over (owner, action) patterns "
        "(quick: 1:6 sample), random beyond. The expected merge is assembled by the generator while it applies the two scripts, "
        "never by nbdime. Long documents: generic lists of 130-520 items and a 270-300 cell notebook with clusters of owned neighbouring positions up to the far end. Generic JSON: dicts with disjoint (nested) key sets, lists of distinct scalars with changes separated by "
        ">= 1 untouched item. Oracle: no decision has conflict=True and canon(merged) == canon(expected), under the default strategy "
        "and mergetool (notebooks) / decide_merge+apply_decisions (generic). Non-trivial: each side owns >= 1 changed cell; distinct by hash.")
FLOOR = {"quick": 2000, "thorough": 30000}
REQUIRED_MONITORS = ("expected_vs_merged_notebook", "expected_vs_merged_generic")
ASSUMPTIONS = ["cell identity is unambiguous to the differ by construction (ids in 4.5; pairwise dissimilar sources >= 40 chars otherwise; "
               "no duplicates or moves; edits keep similarity)", "expected result never computed with nbdime"]
OPTIMIZED_SHARDS = (0,)
NSHARDS = 16
ACTIONS = ["edit_source", "edit_outputs", "edit_metadata", "bump_ec", "delete", "leave"]
WORDS = ["alpha", "bravo", "charlie", "delta", "echo", "foxtrot", "golf", "hotel", "india", "juliet", "kilo", "lima", "mike",
         "november", "oscar", "papa", "quebec", "romeo", "sierra", "tango", "uniform", "victor", "whiskey", "xray", "yankee", "zulu"]


def plan(tier, seed):
    if tier == "quick":
        return [{"i": i, "n": NSHARDS, "window_sample": 6, "random": 150, "generic": 400, "timeout": 900} for i in range(NSHARDS)]
    return [{"i": i, "n": NSHARDS, "window_sample": 1, "random": 1500, "generic": 6000, "timeout": 3000} for i in range(NSHARDS)]


def distinct_source(r, idx, kind):
    # every cell gets its own vocabulary slice: pairwise similarity is far below 0.5
    w = WORDS[(idx * 2) % len(WORDS)]
    w2 = WORDS[(idx * 2 + 1) % len(WORDS)]
    n = r.choice([2, 3, 4])
    lines = ["%s_%d = %s_function(%s_%d, '%s %s')" % (w, j, w2, w2, idx * 7 + j, w * 2, w2) for j in range(n)]
    src = "\n".join(lines)
    return src + r.choice(["\n", ""])


def make_base(gen, ncells, minor):
    r = gen.rng
    cells = []
    for idx in range(ncells):
        kind = r.choice(["code", "code", "markdown", "raw"])
        c = gen.cell(minor, kind)
        c["source"] = distinct_source(r, idx, kind)
        cells.append(c)
    return {"nbformat": 4, "nbformat_minor": minor, "metadata": gen.nb_metadata(), "cells": cells}


def apply_action(gen, cell, action, tagno):
    """returns new cell or None (deleted). The edit is recorded by construction."""
    r = gen.rng
    c = copy.deepcopy(cell)
    if action == "delete":
        return None
    if action in ("edit_outputs", "bump_ec") and c["cell_type"] != "code":
        action = "edit_metadata"
    if action == "edit_source":
        lines = c["source"].splitlines(True)
        k = r.randrange(len(lines))
        body = lines[k].rstrip("\n")
        lines[k] = body + " #e%d" % tagno + ("\n" if lines[k].endswith("\n") else "")
        c["source"] = "".join(lines)
    elif action == "edit_outputs":
        cc = r.random()
        if c["outputs"] and cc < 0.4:
            del c["outputs"][r.randrange(len(c["outputs"]))]
        elif c["outputs"] and cc < 0.7:
            k = r.randrange(len(c["outputs"]))
            c["outputs"][k] = gen.output(ec=c["execution_count"])
        else:
            c["outputs"].insert(r.randrange(len(c["outputs"]) + 1), gen.output(ec=c["execution_count"]))
    elif action == "edit_metadata":
        c["metadata"]["owner_tag_%d" % tagno] = r.choice([True, 1, "v", [1, 2], {"k": 1}])
        if r.random() < 0.3 and "tags" in c["metadata"]:
            c["metadata"]["tags"] = c["metadata"]["tags"] + ["owned%d" % tagno]
    elif action == "bump_ec":
        c["execution_count"] = (c["execution_count"] or 0) + 1
        for o in c["outputs"]:
            if o["output_type"] == "execute_result":
                o["execution_count"] = c["execution_count"]
    return c


def build_triple(gen, base, pattern, inserts):
    """pattern: list of (owner, action) per base cell, owner in 'L','R','-'.
    inserts: {gap_index: owner} (already checked for eligibility)."""
    r = gen.rng
    minor = base["nbformat_minor"]
    loc, rem, exp = [], [], []
    ins_cells = {}
    for g, owner in inserts.items():
        c = gen.cell(minor, r.choice(["code", "markdown"]))
        c["source"] = "inserted_%s_%d = unique_%s_value_%d()\n# a fresh cell by %s" % (owner, g, WORDS[(g * 5 + 3) % len(WORDS)], g, owner)
        ins_cells[g] = c
    for idx, cell in enumerate(base["cells"] + [None]):
        if idx in ins_cells:
            owner = inserts[idx]
            (loc if owner == "L" else rem).append(copy.deepcopy(ins_cells[idx]))
            exp.append(copy.deepcopy(ins_cells[idx]))
        if cell is None:
            break
        owner, action = pattern[idx]
        if owner == "-" and len(base["cells"]) <= 50 and r.random() < 0.12:
            # a cell NEITHER side owns alone: both make the IDENTICAL source edit (a commit both branches picked up), and
            # each also leaves its own mark elsewhere in the cell (its own metadata member): all three changes must arrive
            shared = copy.deepcopy(cell)
            lines = shared["source"].splitlines(True) or [""]
            shared["source"] = "".join(lines[:1]) + ("" if lines[0].endswith("\n") or not lines[0] else "\n") + "shared_edit_%d = True\n" % idx + "".join(lines[1:])
            lc, rc, ec_ = copy.deepcopy(shared), copy.deepcopy(shared), copy.deepcopy(shared)
            if r.random() < 0.8:
                lc["metadata"]["mark_L"] = idx
                ec_["metadata"]["mark_L"] = idx
            if r.random() < 0.8:
                rc["metadata"]["mark_R"] = [idx]
                ec_["metadata"]["mark_R"] = [idx]
            loc.append(lc)
            rem.append(rc)
            exp.append(ec_)
            continue
        new = apply_action(gen, cell, action, idx) if owner != "-" and action != "leave" else copy.deepcopy(cell)
        for side, lst in (("L", loc), ("R", rem)):
            if owner == side:
                if new is not None:
                    lst.append(copy.deepcopy(new))
            else:
                lst.append(copy.deepcopy(cell))
        if new is not None:
            exp.append(copy.deepcopy(new))

    def nb(cells):
        return {"nbformat": 4, "nbformat_minor": minor, "metadata": copy.deepcopy(base["metadata"]), "cells": cells}
    L, R, E = nb(loc), nb(rem), nb(exp)
    # document-level changes next to the per-cell ones, each owned by one side: the file was re-saved by a newer
    # Jupyter (format minor bumped, below 4.5 so that no ids appear), a notebook metadata key was added / changed
    if r.random() < 0.3:
        side = r.choice([L, R])
        if minor < 4 and r.random() < 0.6:
            side["nbformat_minor"] = E["nbformat_minor"] = r.randrange(minor + 1, 5)
        else:
            key = r.choice(["toc", "celltoolbar", "widgets_state", "authors"])
            if key not in base["metadata"]:
                val = r.choice([True, "Slideshow", {"depth": 3}, [{"name": "A"}]])
                side["metadata"][key] = copy.deepcopy(val)
                E["metadata"][key] = copy.deepcopy(val)
                if r.random() < 0.4:       # the other side adds a different key
                    other = R if side is L else L
                    other["metadata"]["other_tool"] = {"v": 1}
                    E["metadata"]["other_tool"] = {"v": 1}
    return L, R, E


def touched(pattern, idx, side):
    if idx < 0 or idx >= len(pattern):
        return False
    o, a = pattern[idx]
    return o == side and a != "leave"


def eligible_gaps(pattern, side):
    other = "R" if side == "L" else "L"
    return [g for g in range(len(pattern) + 1) if not touched(pattern, g - 1, other) and not touched(pattern, g, other)]


def adjacency_signature(pattern):
    s = "".join((o if a != "leave" else "-") + ("d" if a == "delete" and o != "-" else "") for o, a in pattern)
    return s


def judge(col, gen, base, pattern, inserts, tag):
    from .. import nbd
    from ..gen_nb import to_node, validate_nb
    from ..workloads import merge_args
    loc, rem, exp = build_triple(gen, base, pattern, inserts)
    if validate_nb(base) or validate_nb(loc) or validate_nb(rem):
        col.count("generator_waste_invalid")
        return
    case = {"base": base, "local": loc, "remote": rem, "expected": exp, "pattern": pattern, "inserts": {str(k): v for k, v in inserts.items()}}
    lchanged = canon(loc) != canon(base)
    rchanged = canon(rem) != canon(base)
    for cfg in ({"merge": "inline", "input": None, "output": None, "ignore_transients": True},
                {"merge": "mergetool", "input": None, "output": None, "ignore_transients": True},
                {"merge": "union", "input": None, "output": None, "ignore_transients": True}):
        col.eval()
        nbd.hygiene()
        try:
            if cfg["merge"] == "union":
                # the documented `union` strategy (cli.rst) is not among the command line's choices: library callers
                # pass it in the options object
                args_ = merge_args(dict(cfg, merge="inline"))
                args_.merge_strategy = "union"
            else:
                args_ = merge_args(cfg)
            merged, dec = nbd.merge_notebooks(to_node(base), to_node(loc), to_node(rem), args_)
        except Exception as e:
            key, tmpl = nbd.exc_key(e)
            col.violation("merge-raised:" + key, str(e)[:200], dict(case, config=cfg), "no-exception")
            continue
        col.mon("expected_vs_merged_notebook")
        if any(d.get("conflict") for d in dec):
            bad = [d for d in dec if d.get("conflict")][0]
            col.violation("conflict-on-disjoint-cells", "%s: conflicted decision at %r (pattern %s inserts %s)" % (
                cfg["merge"], list(bad["common_path"]), adjacency_signature(pattern), inserts), dict(case, config=cfg), "no-conflict")
        elif not seq(merged, exp):
            col.violation("merged-differs-from-both-change-sets", "%s: %s (pattern %s inserts %s)" % (
                cfg["merge"], first_difference(merged, exp), adjacency_signature(pattern), inserts), dict(case, config=cfg), "result")
    if lchanged and rchanged:
        col.nt(chash(base["cells"][:3], pattern, loc["cells"][-2:], rem["cells"][-2:]) if len(base["cells"]) > 50 else chash(base, loc, rem))
        col.count("adjacency:" + adjacency_signature(pattern)[:12])
        if inserts:
            col.count("with_inserts")
        if len(col.samples) < 2:
            col.sample({"pattern": pattern, "inserts": {str(k): v for k, v in inserts.items()}, "minor": base["nbformat_minor"], "origin": tag})


# ---- generic JSON ---------------------------------------------------------------
def generic_case(col, r):
    from .. import nbd
    kind = r.choice(["dict", "nested", "list", "text"])
    if kind == "text":
        # a multi-line string merged line-wise: each side makes small in-line edits on lines of its own (never neighbours)
        n = r.randrange(6, 18)
        lines = ["step %02d of the procedure" % i for i in range(n)]
        owners = ["-"] * n
        i = r.randrange(2)
        while i < n:
            if r.random() < 0.45:
                owners[i] = r.choice("LR")
                i += 2
            else:
                i += 1
        ll, rl, el = list(lines), list(lines), list(lines)
        for i, o in enumerate(owners):
            if o == "-":
                continue
            how = r.choice(["inline", "inline", "append", "prefix"])
            new = {"inline": lines[i].replace("of", "of%s" % o.lower(), 1), "append": lines[i] + " (%s)" % o, "prefix": o + ": " + lines[i]}[how]
            (ll if o == "L" else rl)[i] = new
            el[i] = new
        fin = r.choice(["\n", ""])
        # (the string is an object member: as a LIST ITEM it would be one item that both sides replace - same position)
        wrap = r.choice(["root", "member"])
        mk = {"root": lambda t: {"text": t}, "member": lambda t: {"doc": {"body": t, "n": 1}}}[wrap]
        base, loc, rem, exp = (mk("\n".join(x) + fin) for x in (lines, ll, rl, el))
    elif kind == "list":
        n = r.randrange(3, 9)
        base = ["item%d" % i if r.random() < 0.7 else i * 10 + 1 for i in range(n)]
        owners = ["-"] * n
        # changes separated by >= 1 untouched item
        i = 0
        while i < n:
            if r.random() < 0.5:
                owners[i] = r.choice("LR")
                i += 2
            else:
                i += 1
        loc, rem, exp = [], [], []
        for i, v in enumerate(base):
            o = owners[i]
            act = r.choice(["replace", "delete"]) if o != "-" else None
            newv = "new%d_%s" % (i, o) if act == "replace" else None
            for side, lst in (("L", loc), ("R", rem)):
                if o == side:
                    if act == "replace":
                        lst.append(newv)
                else:
                    lst.append(v)
            if o == "-":
                exp.append(v)
            elif act == "replace":
                exp.append(newv)
    else:
        # member names: ordinary ones, and names a program might mistake for something else - digits only ("2024",
        # "0"), a star, a slash, the empty string, names of notebook parts
        odd = ["2024", "0", "1", "10", "*", "a/b", "", "cells", "-1", "1.5", "k 1"]
        keys = ["k%d" % i for i in range(r.randrange(2, 7))]
        if r.random() < 0.4:
            for j in r.sample(range(len(keys)), r.randrange(1, len(keys) + 1)):
                cand = r.choice(odd)
                if cand not in keys:
                    keys[j] = cand
        def val(i):
            return r.choice([i, "s%d" % i, [i, i + 1], {"in": i}, {"in": {"deeper": [i]}}, True, 1.5])
        if kind == "nested":
            base = {"outer": {k: val(i) for i, k in enumerate(keys)}, "other": {"x": 1}}
            tgt = lambda d: d["outer"]
        else:
            base = {k: val(i) for i, k in enumerate(keys)}
            tgt = lambda d: d
        loc, rem, exp = copy.deepcopy(base), copy.deepcopy(base), copy.deepcopy(base)
        for i, k in enumerate(keys):
            o = r.choice("LR--")
            if o == "-":
                continue
            act = r.choice(["replace", "delete", "nested"])
            for d in ((loc if o == "L" else rem), exp):
                t = tgt(d)
                if act == "delete":
                    del t[k]
                elif act == "nested" and isinstance(t[k], dict) and isinstance(t[k].get("in"), dict):
                    t[k]["in"]["deeper"] = t[k]["in"]["deeper"] + ["deep_" + o]
                elif act == "nested" and isinstance(t[k], dict):
                    t[k]["added_by_" + o] = i
                elif act == "nested" and isinstance(t[k], list):
                    t[k].append("tail_" + o)
                else:
                    t[k] = "replaced_%d_%s" % (i, o)
        for o in "LR":
            if r.random() < 0.5:
                for d in ((loc if o == "L" else rem), exp):
                    tgt(d)["new_key_" + o] = {"by": o}
    col.eval()
    case = {"base": base, "local": loc, "remote": rem, "expected": exp, "generic": True}
    try:
        dec = nbd.decide_merge(base, loc, rem)
        merged = nbd.apply_decisions(base, dec)
    except Exception as e:
        key, tmpl = nbd.exc_key(e)
        col.violation("merge-raised:" + key, str(e)[:200], case, "no-exception")
        return
    col.mon("expected_vs_merged_generic")
    if any(d.get("conflict") for d in dec):
        col.violation("conflict-on-disjoint-generic-changes", "kind=%s" % kind, case, "no-conflict")
    elif not seq(merged, exp):
        col.violation("generic-merged-differs-from-both-change-sets", first_difference(merged, exp), case, "result")
    if canon(loc) != canon(base) and canon(rem) != canon(base):
        col.nt(chash(base, loc, rem))
        col.count("generic:" + kind)


def run_shard(spec):
    from .. import nbd
    from ..gen_nb import NBGen
    col = Collector(ID)
    r = random.Random(spec["seed"])
    os.chdir(os.environ.get("VMON_SCRATCH", "/tmp"))
    if "replay" in spec:
        c = spec["replay"]["case"]
        from ..gen_nb import to_node
        from ..workloads import merge_args
        if c.get("generic"):
            dec = nbd.decide_merge(c["base"], c["local"], c["remote"])
            merged = nbd.apply_decisions(c["base"], dec)
        else:
            merged, dec = nbd.merge_notebooks(to_node(c["base"]), to_node(c["local"]), to_node(c["remote"]), merge_args(c["config"]))
        col.eval()
        col.mon("expected_vs_merged_notebook")
        col.mon("expected_vs_merged_generic")
        if any(d.get("conflict") for d in dec):
            col.violation("conflict-on-disjoint-cells", "replay", c, "no-conflict")
        elif not seq(merged, c["expected"]):
            col.violation("merged-differs-from-both-change-sets", first_difference(merged, c["expected"]), c, "result")
        return col.result()
    i, n = spec["i"], spec["n"]
    # exhaustive windows of 4 cells: (owner, action) per cell
    opts = [("-", "leave")] + [(o, a) for o in "LR" for a in ACTIONS if a != "leave"]
    cnt = 0
    for pattern in itertools.product(opts, repeat=4):
        cnt += 1
        if cnt % n != i or (cnt // n) % spec["window_sample"] != 0:
            continue
        owners = {o for o, a in pattern}
        if not ("L" in owners and "R" in owners):
            continue
        gen = NBGen(r, exotic=False, hostile=False)
        minor = r.choice([0, 2, 4, 5, 5])
        base = make_base(gen, 4, minor)
        judge(col, gen, base, list(pattern), {}, "window4")
    # random, with insertions
    for _ in range(spec["random"]):
        gen = NBGen(r, exotic=False, hostile=(r.random() < 0.3))
        minor = r.choice([0, 1, 2, 3, 4, 5, 5, 5])
        ncells = r.randrange(2, 11)
        base = make_base(gen, ncells, minor)
        pattern = []
        for idx in range(ncells):
            o = r.choice("LR-")
            pattern.append((o, r.choice(ACTIONS) if o != "-" else "leave"))
        inserts = {}
        for side in "LR":
            gaps = [g for g in eligible_gaps(pattern, side) if g not in inserts]
            r.shuffle(gaps)
            for g in gaps[: r.choice([0, 0, 1, 1, 2])]:
                inserts[g] = side
        judge(col, gen, base, pattern, inserts, "random")
    for _ in range(spec["generic"]):
        generic_case(col, r)
    # long documents: hundreds of items, owned changes in adjacency patterns far beyond small indices
    for _ in range(max(4, spec["generic"] // 60)):
        long_generic_case(col, r)
    gen = NBGen(r, exotic=False, hostile=False)
    long_notebook_case(col, gen)
    return col.result()


def _long_pattern(r, n):
    """owner per index: clusters of neighbouring owned positions (LL, L then R, delete then edit) placed anywhere,
    including the far end of the list"""
    owners = ["-"] * n
    for _ in range(r.randrange(3, 9)):
        k = r.choice([r.randrange(n - 4), n - r.randrange(3, 40), r.randrange(max(1, n - 60), n - 4)])
        shape = r.choice(["LL", "RR", "LR", "RL", "L-R", "LLR", "R"])
        for off, o in enumerate(shape):
            if o != "-" and 0 <= k + off < n:
                owners[k + off] = o
    return owners


def long_generic_case(col, r):
    from .. import nbd
    n = r.choice([130, 270, 300, 520])
    base = ["item %d" % i for i in range(n)]
    owners = _long_pattern(r, n)
    loc, rem, exp = [], [], []
    for i, v in enumerate(base):
        o = owners[i]
        act = r.choice(["replace", "replace", "delete"]) if o != "-" else None
        newv = "changed %d by %s" % (i, o)
        for side, lst in (("L", loc), ("R", rem)):
            if o == side:
                if act == "replace":
                    lst.append(newv)
            else:
                lst.append(v)
        if o == "-":
            exp.append(v)
        elif act == "replace":
            exp.append(newv)
    if r.random() < 0.5:        # one side appends at the very end
        o = r.choice("LR")
        (loc if o == "L" else rem).append("appended by " + o)
        exp.append("appended by " + o)
    col.eval()
    case = {"base": base, "local": loc, "remote": rem, "expected": exp, "generic": True}
    # neighbouring positions owned by DIFFERENT sides are adjacent changes: outside the property's precondition
    adjacent_foreign = any(owners[i] != "-" and owners[i + 1] != "-" and owners[i] != owners[i + 1] for i in range(n - 1))
    try:
        dec = nbd.decide_merge(base, loc, rem)
        merged = nbd.apply_decisions(base, dec)
    except Exception as e:
        key, tmpl = nbd.exc_key(e)
        col.violation("merge-raised:" + key, str(e)[:200], case, "no-exception")
        return
    if adjacent_foreign:
        col.count("long_generic_adjacent_foreign_changes_not_judged")
        return
    col.mon("expected_vs_merged_generic")
    if any(d.get("conflict") for d in dec):
        col.violation("conflict-on-disjoint-generic-changes", "long list n=%d" % n, case, "no-conflict")
    elif not seq(merged, exp):
        col.violation("generic-merged-differs-from-both-change-sets", "long list n=%d: %s" % (n, first_difference(merged, exp)), case, "result")
    col.nt(chash(base[:3], loc, rem))
    col.count("generic:long-list")


def long_notebook_case(col, gen):
    """a 4.5 notebook with ~300 small cells; owned edits / deletions / an appended cell beyond index 256"""
    r = gen.rng
    n = r.choice([270, 300])
    cells = []
    for i in range(n):
        c = {"cell_type": "code", "metadata": {}, "source": "cell_%d = %d" % (i, i * 7), "execution_count": None, "outputs": [], "id": "c%05d" % i}
        cells.append(c)
    base = {"nbformat": 4, "nbformat_minor": 5, "metadata": {}, "cells": cells}
    owners = _long_pattern(r, n)
    for i in range(n - 1):      # keep the property's precondition: no neighbouring cells owned by different sides
        if owners[i] != "-" and owners[i + 1] != "-" and owners[i] != owners[i + 1]:
            owners[i + 1] = owners[i]
    pattern = [(o, (r.choice(["edit_source", "edit_metadata", "delete"]) if o != "-" else "leave")) for o in owners]
    judge(col, gen, base, pattern, {}, "long-notebook")
