"""C08 Merge command and git driver: exit status, output file, behaviour on failure."""
import copy
import json
import os
import random
import shutil
import subprocess
import sys

from ..collect import Collector
from ..canon import chash, canon, to_plain, first_difference
from .c12 import blank_markers

ID = "C08"
LEVEL = "fault_enumeration"
RULE = ("real processes of nbmerge (--out F with pre-existing sentinel / fresh F / stdout / --decisions --out) and git-nbmergedriver merge "
        "(%A = local file) run through vmon.launcher on generated triples incl. /dev/null placeholders (added on both sides, deleted on "
        "one side, deleted on both) and a 0-byte base, strategies by covering sample. (a) fault-free: exit status 0 iff the decisions "
        "the library returned in that very run have no conflict; output parses as JSON equal to nbformat.writes(merged returned) AND to the library merge of the intended inputs computed independently in the harness (ids blanked); the base may also arrive through a named pipe. "
        "(b) fault enumeration: a recording run numbers the step boundaries (PY_START of read_notebook x3, diff_notebooks x2, "
        "decide_merge_with_diff, apply_decisions, nbformat.writes, _handle_agreed_deletion; open / every 4KiB write / close / remove of the "
        "output file); then for EVERY boundary k and EVERY fault kind in {OSError(EIO), MemoryError, KeyboardInterrupt, SIGKILL} a fresh "
        "process re-runs the case with the fault injected at k. Refuted by exit status 0 with an output other than the complete fault-free "
        "result, or a fault at or before the open of the output with output bytes != pre-state. (c) real `git merge` with the driver "
        "configured: git's clean/conflict verdict vs the driver's decisions, work-tree file vs what the driver wrote. "
        "Non-trivial: fault-free case with >= 1 decision; injected run counted once per (case class, mode, boundary name, fault kind).")
FLOOR = {"quick": 120, "thorough": 400}
REQUIRED_MONITORS = ("fault_free", "injected", "real_git", "independent_library_merge")
ASSUMPTIONS = ["faults are injected only at the listed boundaries of the merge process itself, never in logging handlers or child processes",
               "a fault inside a pure computation step behaves like one at its entry (nothing written yet)",
               "SIGKILL runs are judged only on: status != 0 and pre-open => output untouched", "watchdog expiry is inconclusive"]
NSHARDS = 16
KINDS = ["oserror", "memory", "interrupt", "kill"]
SENTINEL = '{"sentinel": "pre-existing output, must survive a failure before the result is written"}\n'


def plan(tier, seed):
    if tier == "quick":
        return [{"cases": 10, "inject_cases": 1, "git_merges": 1, "timeout": 1500} for i in range(NSHARDS)]
    return [{"cases": 125, "inject_cases": 5, "git_merges": 6, "timeout": 3400} for i in range(NSHARDS)]


def launcher_cmd(entry, spec_path, args):
    return [sys.executable, "-m", "vmon.launcher", entry, "--vmon-spec", spec_path, "--"] + args


def write_nb(path, nb, r):
    from ..gen_nb import disk_form
    with open(path, "w", encoding="utf8") as f:
        json.dump(disk_form(nb, r), f)


def make_case(gen, r, d, force=None):
    """returns dict(case) describing files and argv; files are (re)created by prepare()"""
    from ..workloads import valid_triple, covering_configs, config_flags
    want_cls = r.choice([None, None, "same_line", "del_vs_edit", "both_insert_dissimilar", "random", "same_output", "same_size_sides", "same_size_sides"])
    if force and len(force) > 2:
        want_cls, force = force[2], force[:2]
    cls, b, l, rm, info, waste = valid_triple(gen, cls=want_cls)
    if cls is None:
        return None
    placeholder = r.choice(["none", "none", "none", "base_null", "local_null", "remote_null", "both_null", "empty_base", "fifo_base"])
    mode = r.choice(["out_sentinel", "out_fresh", "stdout", "driver", "driver", "decisions_out"])
    if force:
        placeholder, mode = force
    if placeholder == "both_null" and mode in ("stdout", "decisions_out"):
        mode = "out_sentinel"
    cfg = [c for c in covering_configs(r, 6) if c["merge"] != "mergetool"]
    cfg = r.choice(cfg)
    generic = r.choice([[], [], [], ["--log-level", "DEBUG"], ["--log-level", "ERROR"], ["--log-level", "WARN"], ["--log-level", "CRITICAL"]])
    # how the local notebook file is called: usually local.ipynb; sometimes a bare name that resembles a missing-file
    # marker of some platform (NUL / nul), or has no extension at all - still an ordinary file with a notebook in it
    lname = r.choice([None] * 7 + ["NUL", "nul", "local", "null"])
    return {"class": cls, "base": b, "local": l, "remote": rm, "placeholder": placeholder, "mode": mode, "config": cfg,
            "flags": config_flags(cfg), "generic_flags": generic, "local_name": lname}


def prepare(case, d, r):
    """(re)create the files of a case in directory d; returns (entry, argv, output_path, pre_state_bytes)"""
    for fn in os.listdir(d):
        p = os.path.join(d, fn)
        if not os.path.isdir(p):
            os.remove(p)
    fb, fl, fr, fo = (os.path.join(d, n) for n in ("base.ipynb", case.get("local_name") or "local.ipynb", "remote.ipynb", "out.ipynb"))
    # same disk form in every re-run of the case, and the same line-splitting choices in the three files (sides that
    # differ in single characters then have the same byte size, as they have when one tool wrote all three)
    write_nb(fb, case["base"], random.Random(1))
    write_nb(fl, case["local"], random.Random(1))
    write_nb(fr, case["remote"], random.Random(1))
    ph = case["placeholder"]
    ab, al, ar = fb, fl, fr
    if case.get("local_name"):
        al = case["local_name"]        # given as a bare relative name (the command runs in this directory)
    if ph == "base_null":
        ab = "/dev/null"
    elif ph == "local_null":
        al = "/dev/null"
    elif ph == "remote_null":
        ar = "/dev/null"
    elif ph == "both_null":
        al = ar = "/dev/null"
    elif ph == "empty_base":
        open(fb, "w").close()
    elif ph == "fifo_base" and case["mode"] != "driver":
        # the base arrives through a named pipe (what `nbmerge <(git show REV:nb.ipynb) mine theirs` does): a valid
        # notebook whose stat size is 0; run() feeds it
        ab = os.path.join(d, "base.fifo")
        os.mkfifo(ab)
    mode = case["mode"]
    if mode == "driver":
        if al == "/dev/null":
            al = fl           # git always hands the driver real files
            if ph == "both_null":
                ar = fr
        entry = "git-nbmergedriver"
        # git writes its three temporary files back to back: on a coarse clock they carry one time stamp
        if case.get("same_mtime", True):
            for fpath in (fb, fl, fr):
                if os.path.exists(fpath):
                    os.utime(fpath, ns=(1_700_000_000_000_000_000, 1_700_000_000_000_000_000))
        argv = case.get("generic_flags", []) + ["merge"] + case["flags"] + [ab, al, ar, "7", "path/in/repo.ipynb"]
        output = al
        with open(al, "rb") as f:
            pre = f.read()
    else:
        entry = "nbmerge"
        argv = case.get("generic_flags", []) + list(case["flags"])
        output = fo
        pre = None
        if mode == "out_sentinel":
            with open(fo, "w") as f:
                f.write(SENTINEL)
            pre = SENTINEL.encode()
            argv += ["--out", fo]
        elif mode == "out_fresh":
            argv += ["--out", fo]
        elif mode == "decisions_out":
            with open(fo, "w") as f:
                f.write(SENTINEL)
            pre = SENTINEL.encode()
            argv += ["--decisions", "--out", fo]
        else:
            output = None
        argv += [ab, al, ar]
    return entry, argv, output, pre


def read_bytes(p):
    if p is None or not os.path.exists(p):
        return None
    with open(p, "rb") as f:
        return f.read()


def run(entry, argv, spec, d, timeout=120):
    sp = os.path.join(d, "spec.json")
    with open(sp, "w") as f:
        json.dump(spec, f)
    feeder = None
    fifo = os.path.join(d, "base.fifo")
    if fifo in argv:
        feeder = subprocess.Popen(["sh", "-c", "cat base.ipynb > base.fifo"], cwd=d, stdout=subprocess.DEVNULL, stderr=subprocess.DEVNULL)
    try:
        p = subprocess.run(launcher_cmd(entry, sp, argv), cwd=d, capture_output=True, timeout=timeout)
    except subprocess.TimeoutExpired:
        return None, b"", b"timeout"
    finally:
        if feeder is not None:
            feeder.kill()
            feeder.wait()
    return p.returncode, p.stdout, p.stderr


def device_full(col, case, d, r):
    """the designated output is a device that accepts no data (/dev/full: every flush fails with ENOSPC, also the
    one hidden in close()): a REAL failed write instead of an injected one - the run must not report success"""
    if case["placeholder"] == "both_null" or case["mode"] == "driver":
        return
    entry, argv, output, pre = prepare(case, d, r)
    sp = os.path.join(d, "spec.json")
    with open(sp, "w") as f:
        json.dump({}, f)
    gone_reader = None
    if "--out" in argv:
        argv = [("/dev/full" if a == output else a) for a in argv]
        stdout = subprocess.PIPE
    elif r.random() < 0.5:
        stdout = open("/dev/full", "wb")
    else:
        # `nbmerge b l r | head -0`: the reader of the pipe has gone away before anything was written (EPIPE)
        rfd, wfd = os.pipe()
        os.close(rfd)
        stdout = os.fdopen(wfd, "wb")
        gone_reader = True
    feeder = None
    if os.path.join(d, "base.fifo") in argv:
        feeder = subprocess.Popen(["sh", "-c", "cat base.ipynb > base.fifo"], cwd=d, stdout=subprocess.DEVNULL, stderr=subprocess.DEVNULL)
    try:
        p = subprocess.run(launcher_cmd(entry, sp, argv), cwd=d, stdout=stdout, stderr=subprocess.PIPE, timeout=120)
    except subprocess.TimeoutExpired:
        col.inconc("device-full run timed out")
        return
    finally:
        if feeder is not None:
            feeder.kill()
            feeder.wait()
        if stdout is not subprocess.PIPE:
            stdout.close()
    col.eval()
    col.mon("real_full_device")
    col.count("real_full_device:" + case["mode"] + (":reader-gone" if gone_reader else ""))
    if p.returncode == 0:
        col.violation("success-reported-although-output-device-full", "mode=%s argv=%s" % (case["mode"], argv[-6:]), dict(case, fault="device-full"), "never-report-success")


def expected_from_dump(dump):
    import nbformat
    return json.loads(nbformat.writes(nbformat.from_dict(dump["merged"])))


def drop_filled_ids(nb, dump):
    """nbformat.write fills in random ids for 4.5 cells that lack one and replaces duplicated ids by fresh random
    ones (a merged notebook with those defects is C04's business); such ids are random on both sides of the comparison"""
    nb = copy.deepcopy(nb)
    ids = [dc.get("id") for dc in dump["merged"].get("cells", [])]
    for c, dc in zip(nb.get("cells", []), dump["merged"].get("cells", [])):
        if "id" not in dc or ids.count(dc["id"]) > 1:
            c.pop("id", None)
    return nb


def fault_free(col, case, d, r):
    """recording + dump run; returns (ok, record) where record has rc, boundaries, output bytes"""
    entry, argv, output, pre = prepare(case, d, r)
    dump, rec = os.path.join(d, "dump.json"), os.path.join(d, "record.json")
    spec = {"dump": dump, "record": rec}
    if output:
        spec["output"] = output
    rc, out, err = run(entry, argv, spec, d)
    col.eval()
    cc = {k: case.get(k) for k in ("class", "base", "local", "remote", "placeholder", "mode", "config", "generic_flags")}
    if rc is None:
        col.inconc("fault-free run watchdog")
        return None
    boundaries = []
    if os.path.exists(rec):
        with open(rec) as f:
            boundaries = json.load(f)["boundaries"]
    outbytes = read_bytes(output)
    col.count("mode:" + case["mode"])
    col.count("placeholder:" + case["placeholder"])
    if case["placeholder"] == "both_null" and case["mode"] != "driver":
        col.mon("fault_free")
        if rc != 0:
            col.violation("agreed-deletion-nonzero-exit", "rc=%s %s" % (rc, err[-200:]), cc, "exit-status")
        if outbytes is not None:
            col.violation("agreed-deletion-output-not-removed", "", cc, "output")
        return {"rc": rc, "boundaries": boundaries, "out": outbytes, "stdout": out, "pre": pre, "dump": None}
    if not os.path.exists(dump):
        # the merge itself failed (C03's business) or file checks rejected the input
        if rc == 0:
            col.violation("exit-0-without-merge", "rc=0 but merge_notebooks never returned; stderr=%s" % err[-300:].decode(errors="replace"), cc, "exit-status")
        else:
            col.count("fault_free_run_failed_rc_nonzero(C03's business if a crash)")
            if output and outbytes != pre:
                col.violation("failed-run-touched-output", "run failed before merge_notebooks returned (rc=%s) but the output bytes changed [mode=%s] stderr=%s" % (
                    rc, case["mode"], err[-200:].decode(errors="replace")), cc, "untouched-before-write")
        return None
    with open(dump) as f:
        dmp = json.load(f)
    if "dump_error" in dmp:
        col.inconc("dump failed: %s" % dmp["dump_error"])
        return None
    col.mon("fault_free")
    try:
        expected_from_dump(dmp)
        writable = True
    except Exception:
        writable = False
    if not writable:
        # the library returned a merged notebook that nbformat cannot serialise (the open C04 findings, e.g. a code
        # cell without `outputs` after a cell changed type): the command's write step fails without any injected fault.
        # C08 then asks for: no success reported, output untouched.
        col.count("fault_free_write_step_failed:merged_notebook_not_serialisable(C04's business)")
        if rc == 0:
            col.violation("success-reported-although-result-not-serialisable", "rc=0 [mode=%s]" % case["mode"], cc, "never-report-success")
        if output and outbytes != pre and case["mode"] != "decisions_out":
            col.violation("failed-run-touched-output", "write step failed (merged notebook not serialisable, rc=%s) but the output bytes changed [mode=%s]" % (rc, case["mode"]), cc, "untouched-before-write")
        return None
    want_rc = 1 if dmp["conflict"] else 0
    if (rc == 0) != (want_rc == 0):
        col.violation("exit-status-disagrees-with-conflicts", "rc=%s but conflict=%s [mode=%s]" % (rc, dmp["conflict"], case["mode"]), cc, "exit-status")
    got = None
    if case["mode"] == "decisions_out":
        try:
            got = json.loads(outbytes.decode("utf8"))
            if canon(got) != canon(dmp["decisions"]):
                col.violation("decisions-file-differs", first_difference(got, dmp["decisions"]), cc, "output")
        except Exception as e:
            col.violation("decisions-file-not-json", repr(e)[:200], cc, "output")
    else:
        raw = out if case["mode"] == "stdout" else outbytes
        try:
            got = json.loads((raw or b"").decode("utf8"))
        except Exception as e:
            col.violation("output-not-json", "%r [mode=%s]" % (e, case["mode"]), cc, "output")
            got = None
        if got is not None:
            want = drop_filled_ids(expected_from_dump(dmp), dmp)
            got = drop_filled_ids(got, dmp)
            if canon(got) != canon(want):
                col.violation("output-differs-from-library-merge", "%s [mode=%s]" % (first_difference(got, want), case["mode"]), cc, "output")
    # independent expectation: the library merge of the INTENDED inputs, computed here in the harness process (the dump
    # above only shows what the command's own library call returned - it is blind to the command reading wrong inputs)
    if case["mode"] in ("out_sentinel", "out_fresh", "stdout", "driver") and got is not None:
        try:
            import nbformat
            from .. import nbd
            from ..gen_nb import to_node
            from ..workloads import merge_args
            ph = case["placeholder"]
            mini = nbformat.v4.new_notebook()
            eb = mini if ph in ("base_null", "empty_base") else to_node(case["base"])
            drv = case["mode"] == "driver"      # mirrors prepare(): git always hands the driver a real %A; with both_null also a real %B
            el = mini if (ph in ("local_null", "both_null") and not drv) else to_node(case["local"])
            er = mini if (ph == "remote_null" or (ph == "both_null" and not drv)) else to_node(case["remote"])
            nbd.hygiene()
            m2, d2 = nbd.merge_notebooks(eb, el, er, merge_args(case["config"]))
            nbd.quiet_logging()
            want2 = json.loads(nbformat.writes(m2))
            conflict2 = any(d.get("conflict") for d in d2)
            if canon(_drop_cell_ids(got)) != canon(_drop_cell_ids(want2)):
                col.violation("output-differs-from-merge-of-the-given-inputs", "%s [mode=%s placeholder=%s]" % (
                    first_difference(_drop_cell_ids(got), _drop_cell_ids(want2)), case["mode"], ph), cc, "output")
            if (rc == 0) == conflict2:
                col.violation("exit-status-disagrees-with-merge-of-the-given-inputs", "rc=%s, library merge of the inputs has conflict=%s [placeholder=%s]" % (rc, conflict2, ph), cc, "exit-status")
            col.mon("independent_library_merge")
        except Exception as e:
            col.count("independent_library_merge_raised(C03's business)")
    if len(dmp["decisions"]) >= 1:
        col.nt(chash("ff", cc))
    if len(col.samples) < 1:
        col.sample({"mode": case["mode"], "placeholder": case["placeholder"], "argv_flags": case["flags"], "rc": rc, "boundaries": boundaries})
    return {"rc": rc, "boundaries": boundaries, "out": outbytes, "stdout": out, "pre": pre, "dump": dmp}


def inject_all(col, case, d, r, ff):
    """every boundary x every fault kind"""
    bnds = ff["boundaries"]
    n = len(bnds)
    if n == 0:
        col.inconc("recording run saw no boundary")
        return
    # "before the result is written": up to and including the last computation boundary and the first
    # open/remove of the output (the fault fires before the boundary's own action)
    comp = ("read_notebook", "diff_notebooks", "decide_merge_with_diff", "apply_decisions", "nbformat.writes", "_handle_agreed_deletion")
    last_comp = max([i + 1 for i, b in enumerate(bnds) if b.startswith(comp)] or [0])
    first_open = min([i + 1 for i, b in enumerate(bnds) if b.startswith(("open-output", "remove-output"))] or [0])
    open_idx = max(last_comp, first_open) or None
    cc = {k: case.get(k) for k in ("class", "base", "local", "remote", "placeholder", "mode", "config", "generic_flags")}
    ff_out = ff["out"] if case["mode"] != "stdout" else ff["stdout"]
    # every non-write boundary; of the write boundaries (json.dump issues one per token) the first 3,
    # the last 2 and 3 evenly spaced ones
    wr = [i + 1 for i, b in enumerate(bnds) if b.startswith("write-output")]
    if len(wr) > 8:
        keep = set(wr[:3] + wr[-2:] + [wr[len(wr) * j // 4] for j in (1, 2, 3)])
        col.count("write_boundaries_sampled_cases")
    else:
        keep = set(wr)
    ks = [k for k in range(1, n + 1) if not bnds[k - 1].startswith("write-output") or k in keep]
    for k in ks:
        for kind in KINDS:
            entry, argv, output, pre = prepare(case, d, r)
            rec = os.path.join(d, "record.json")
            spec = {"record": rec, "fault": {"k": k, "kind": kind}}
            if output:
                spec["output"] = output
            rc, out, err = run(entry, argv, spec, d)
            col.eval()
            if rc is None:
                col.inconc("injected run watchdog")
                continue
            fired = False
            if os.path.exists(rec):
                with open(rec) as f:
                    fired = any(x.startswith("FAULT") for x in json.load(f)["boundaries"])
            if not fired:
                col.count("injection_not_reached")
                continue
            col.mon("injected")
            bname = bnds[k - 1].split("#")[0]
            col.count("fault:%s@%s" % (kind, bname))
            col.nt(chash("inj", case["class"], case["mode"], case["placeholder"], bname, kind))
            now = read_bytes(output) if case["mode"] != "stdout" else out
            wit = dict(cc, fault={"k": k, "kind": kind, "boundary": bnds[k - 1]})
            if rc == 0 and kind != "kill":
                same = _same_result(now, ff_out)
                if not same or ff["rc"] != 0:
                    col.violation("success-reported-after-fault:%s" % bname,
                                  "%s at %s: exit 0 but output is %s (fault-free rc=%s) [mode=%s]" % (
                                      kind, bnds[k - 1], "not the complete result" if not same else "complete", ff["rc"], case["mode"]), wit, "never-success-on-failure")
            if rc == 0 and kind == "kill":
                col.violation("success-reported-after-kill", "SIGKILL at %s yet exit status 0" % bnds[k - 1], wit, "never-success-on-failure")
            if output and (open_idx is None or k <= open_idx) and rc != 0:
                if now != pre:
                    col.violation("output-touched-before-result-written:%s" % bname,
                                  "%s at %s (before the output was opened): output bytes changed [mode=%s]" % (kind, bnds[k - 1], case["mode"]), wit, "untouched-before-write")
                else:
                    col.count("pre_open_untouched_confirmed")
            elif output and rc != 0:
                col.count("post_open_partial_allowed")


def _same_result(a, b):
    if a is None or b is None:
        return a is None and b is None
    try:
        return canon(_blank_all_ids(json.loads(a.decode("utf8")))) == canon(_blank_all_ids(json.loads(b.decode("utf8"))))
    except Exception:
        return a == b


def _drop_cell_ids(nb):
    """two independent runs: marker-cell ids, ids filled in or de-duplicated by nbformat.write are random in each"""
    nb = copy.deepcopy(nb)
    for c in nb.get("cells", []):
        c.pop("id", None)
    return nb


def _blank_all_ids(x):
    """two runs of one case: marker-cell ids and ids filled in by nbformat.write are random in each"""
    if isinstance(x, dict):
        return {k: ("ID" if k == "id" and isinstance(v, str) else _blank_all_ids(v)) for k, v in x.items()}
    if isinstance(x, list):
        return [_blank_all_ids(v) for v in x]
    return x


def real_git(col, gen, r, d):
    """real `git merge` with the driver configured through a shim that runs the launcher"""
    from ..workloads import valid_triple
    from ..gen_nb import validate_nb
    repo = os.path.join(d, "repo")
    shutil.rmtree(repo, ignore_errors=True)
    os.makedirs(repo)
    bindir = os.path.join(d, "bin")
    os.makedirs(bindir, exist_ok=True)
    shim = os.path.join(bindir, "git-nbmergedriver")
    spec = os.path.join(d, "gitspec.json")
    dump = os.path.join(d, "gitdump.json")
    with open(shim, "w") as f:
        f.write("#!/bin/sh\nexec %s -m vmon.launcher git-nbmergedriver --vmon-spec %s -- \"$@\"\n" % (sys.executable, spec))
    os.chmod(shim, 0o755)
    with open(spec, "w") as f:
        json.dump({"dump": dump}, f)
    env = dict(os.environ, GIT_AUTHOR_NAME="v", GIT_AUTHOR_EMAIL="v@v", GIT_COMMITTER_NAME="v", GIT_COMMITTER_EMAIL="v@v")

    def git(*a, check=True):
        p = subprocess.run(["git"] + list(a), cwd=repo, env=env, capture_output=True, timeout=120)
        if check and p.returncode != 0:
            raise RuntimeError("git %s failed: %s" % (a, p.stderr.decode(errors="replace")[-300:]))
        return p
    kind = r.choice(["compatible", "conflict", "conflict", "add_add", "random", "same_size"])
    cls, b, l, rm, info, waste = valid_triple(gen, cls={"conflict": "same_line", "compatible": "random", "add_add": "both_insert_dissimilar", "random": None,
                                                        "same_size": "same_size_sides"}[kind])
    if cls is None:
        return
    if kind == "compatible" and len(b["cells"]) >= 2:
        from ..gen_edit import mutate_once
        l, rm = copy.deepcopy(b), copy.deepcopy(b)
        l["cells"][0]["source"] += "\n# local tail"
        rm["cells"][-1]["source"] += "\n# remote tail"
    if canon(l) == canon(b) or canon(rm) == canon(b) or canon(l) == canon(rm):
        return
    git("init", "-q", "-b", "main")
    git("config", "merge.jupyternotebook.driver", "%s merge %%O %%A %%B %%L %%P" % shim)
    git("config", "merge.jupyternotebook.name", "nb")
    with open(os.path.join(repo, ".gitattributes"), "w") as f:
        f.write("*.ipynb\tmerge=jupyternotebook\n")
    nbp = os.path.join(repo, "nb.ipynb")
    rr = random.Random(2)
    if kind == "add_add":
        with open(os.path.join(repo, "README"), "w") as f:
            f.write("x\n")
        git("add", "-A")
        git("commit", "-q", "-m", "base")
    else:
        write_nb(nbp, b, rr)
        git("add", "-A")
        git("commit", "-q", "-m", "base")
    git("checkout", "-q", "-b", "remote")
    write_nb(nbp, rm, rr)
    git("add", "-A")
    git("commit", "-q", "-m", "remote")
    git("checkout", "-q", "main")
    write_nb(nbp, l, rr)
    git("add", "-A")
    git("commit", "-q", "-m", "local")
    if os.path.exists(dump):
        os.remove(dump)
    p = git("merge", "--no-edit", "remote", check=False)
    col.eval()
    cc = {"base": b, "local": l, "remote": rm, "class": cls, "git_case": kind}
    if not os.path.exists(dump):
        if p.returncode == 0:
            col.count("git_merged_without_calling_driver")
        else:
            col.count("git_merge_failed_without_driver_result:" + p.stderr.decode(errors="replace")[-80:].strip().replace("\n", " "))
        return
    with open(dump) as f:
        dmp = json.load(f)
    col.mon("real_git")
    col.count("git_case:" + kind)
    git_clean = p.returncode == 0
    if git_clean == bool(dmp["conflict"]):
        col.violation("git-verdict-disagrees-with-driver", "git merge rc=%s, driver decisions conflict=%s" % (p.returncode, dmp["conflict"]), cc, "real-git")
    try:
        with open(nbp, encoding="utf8") as f:
            got = json.load(f)
        want = drop_filled_ids(expected_from_dump(dmp), dmp)
        got = drop_filled_ids(got, dmp)
        if canon(got) != canon(want):
            col.violation("worktree-file-differs-from-driver-result", first_difference(got, want), cc, "real-git")
    except Exception as e:
        col.violation("worktree-file-not-json", repr(e)[:200], cc, "real-git")
    col.nt(chash("git", cc))


def run_shard(spec):
    from ..gen_nb import NBGen
    col = Collector(ID)
    r = random.Random(spec["seed"])
    d = os.path.join(os.environ.get("VMON_SCRATCH", "/tmp"), "c08-%s" % spec.get("shard", 0))
    os.makedirs(d, exist_ok=True)
    os.chdir(d)
    if "replay" in spec:
        c = spec["replay"]["case"]
        if "mode" not in c:
            col.inconc("real-git witnesses are replayed by re-running the check with the same seed")
            return col.result()
        case = dict(c)
        from ..workloads import config_flags
        case["flags"] = config_flags(c["config"])
        ff = fault_free(col, case, d, r)
        if ff and c.get("fault"):
            inject_all(col, case, d, r, ff)
        return col.result()
    injected = 0
    for k in range(spec["cases"]):
        gen = NBGen(r, exotic=False)
        # every fourth shard starts with an agreed-deletion case (output removed) and enumerates its faults as well
        force = ("both_null", "out_sentinel") if (k == 0 and spec.get("shard", 0) % 4 == 1) else \
                (("none", "driver") if (k == 0 and spec.get("shard", 0) % 4 == 3) else
                 (("none", "driver", "same_size_sides") if (k == 0 and spec.get("shard", 0) % 4 == 2) else None))
        case = make_case(gen, r, d, force)
        if case is None:
            continue
        ff = fault_free(col, case, d, r)
        if ff and k % 5 == 1:
            device_full(col, case, d, r)
        if ff and force:
            inject_all(col, case, d, r, ff)
            continue
        if ff and injected < spec["inject_cases"] and (k % 3 == 0 or k >= spec["cases"] - spec["inject_cases"]):
            injected += 1
            inject_all(col, case, d, r, ff)
    for _ in range(spec["git_merges"]):
        gen = NBGen(r, exotic=False)
        try:
            real_git(col, gen, r, d)
        except RuntimeError as e:
            col.inconc("git harness: %s" % e)
    return col.result()
