"""C07 Default merge never drops or invents source text; real conflicts are flagged."""
import os
import random
import re

from ..collect import Collector
from ..canon import chash, canon, to_plain
from .. import env

ID = "C07"
LEVEL = "exploration"
RULE = ("C03 triple stream restricted to LF/CRLF sources, enriched with both-append-at-end with/without final newline, edit inside a "
        "cell the other side deleted, insert next to a deleted cell, both rewrite line k (first/middle/last, +/- final newline), one "
        "side empties the source, whitespace-only edits; every triple merged with the default strategy under three PATH variants "
        "(git merge-file / diff3 / built-in renderer). Oracles: survival (every line in a local/remote source but in no base source "
        "occurs in some merged source), provenance (every non-blank merged source line occurs in a base/local/remote source or matches "
        "the closed marker list), flagging (forced same-line conflict on an id-aligned cell => some decision has conflict=True and both "
        "variants are in that merged cell). Lines compared without terminator. Non-trivial: some side adds a line not in base; "
        "distinct by hash of (triple, renderer).")
FLOOR = {"quick": 1500, "thorough": 25000}
REQUIRED_MONITORS = ("survival", "provenance", "flagging")
ASSUMPTIONS = ["lines a side removed need not survive", "generated source lines never look like markers",
               "a line present in a base source counts as coming from base even if a renderer shows it in a ||||||| section"]
NSHARDS = 16

MARKERS = [re.compile(p) for p in (
    r"^<{7} (local|base)$", r"^<{7} LOCAL CELL DELETED >{7}$", r"^<{7} REMOTE CELL DELETED >{7}$",
    r"^\|{7}( base)?$", r"^={7}$", r"^>{7} remote$",
    r'^<span style="color:red"><b>(<{7} local|={7}|>{7} remote)</b></span>$',
)]
DEFAULT = {"merge": "inline", "input": None, "output": None, "ignore_transients": True}


def plan(tier, seed):
    if tier == "quick":
        return [{"triples": 330, "timeout": 900} for i in range(NSHARDS)]
    return [{"triples": 1700, "timeout": 3000} for i in range(NSHARDS)]


def lines_of(src):
    return src.replace("\r\n", "\n").split("\n")


def source_lines(nb):
    s = set()
    for c in nb["cells"]:
        s.update(lines_of(c["source"]))
    return s


def is_marker(line):
    return any(m.match(line) for m in MARKERS)


def extra_triple(gen, minor):
    """C07-specific enrichments; returns (cls, base, local, remote, info)"""
    import copy
    r = gen.rng
    cls = r.choice(["both_append_end", "edit_in_deleted", "insert_next_deleted", "empty_one_side", "whitespace_only", "same_change_plus_conflict", "two_conflict_regions", "two_conflict_regions", "continued_last_line"])
    base = gen.notebook(minor, ncells=r.choice([2, 3, 4]))
    m = base["nbformat_minor"]
    from ..workloads import _plain
    for c in base["cells"]:
        c["source"] = _plain(c["source"])
    k = r.randrange(len(base["cells"]))
    loc, rem = copy.deepcopy(base), copy.deepcopy(base)
    info = {"k": k}
    if cls == "both_append_end":
        s = base["cells"][k]["source"]
        sep = "" if (s.endswith("\n") or not s) else "\n"
        loc["cells"][k]["source"] = s + sep + "local appended %d" % r.randrange(99) + r.choice(["\n", ""])
        rem["cells"][k]["source"] = s + sep + "remote appended %d" % r.randrange(99) + r.choice(["\n", ""])
    elif cls == "edit_in_deleted":
        s = loc["cells"][k]["source"]
        loc["cells"][k]["source"] = s + ("" if s.endswith("\n") or not s else "\n") + "edited in a cell the other side deleted %d" % r.randrange(99)
        del rem["cells"][k]
        if r.random() < 0.5:
            loc, rem = rem, loc
    elif cls == "insert_next_deleted":
        del loc["cells"][k]
        c = gen.cell(m)
        c["source"] = "inserted next to a deleted cell %d\nsecond line" % r.randrange(99)
        rem["cells"].insert(k + r.choice([0, 1]), c)
    elif cls == "empty_one_side":
        loc["cells"][k]["source"] = ""
        if r.random() < 0.6:
            s = rem["cells"][k]["source"]
            rem["cells"][k]["source"] = "remote line on top %d\n" % r.randrange(99) + s
    elif cls == "same_change_plus_conflict":
        lines = ["shared line %d of %d" % (j, r.randrange(1000)) for j in range(6)]
        fin = r.choice(["\n", ""])
        base["cells"][k]["source"] = "\n".join(lines) + fin
        ll, rl = list(lines), list(lines)
        ll[1] = rl[1] = "both sides agree on this %d" % r.randrange(99)
        ll[4] = lines[4] + " local"
        rl[4] = lines[4] + " remote"
        loc["cells"][k]["source"] = "\n".join(ll) + fin
        rem["cells"][k]["source"] = "\n".join(rl) + fin
    elif cls == "two_conflict_regions":
        # both sides rewrite two (or three) separate lines of one cell differently: several conflict regions
        n = r.choice([6, 8, 10])
        lines = ["statement number %d of the cell = %d" % (j, r.randrange(1000)) for j in range(n)]
        fin = r.choice(["\n", ""])
        base["cells"][k]["source"] = "\n".join(lines) + fin
        ll, rl = list(lines), list(lines)
        for j in sorted(r.sample(range(n), r.choice([2, 3]))):
            ll[j] = lines[j] + "  # local variant %d" % r.randrange(99)
            rl[j] = "remote variant %d: " % r.randrange(99) + lines[j]
        loc["cells"][k]["source"] = "\n".join(ll) + fin
        rem["cells"][k]["source"] = "\n".join(rl) + fin
    elif cls == "continued_last_line":
        # both sides continue the (unterminated) last line of a cell - or fill an empty cell - and one side's
        # text is a character prefix of the other's: same-line rewrite, although one text "contains" the other
        s = r.choice([base["cells"][k]["source"].rstrip("\n"), "", "threshold = 0.5", "import pandas"])
        base["cells"][k]["source"] = s
        first = r.choice(["5", " as pd", " + offset", "_v2", "import numpy" if not s else " # note"])
        second = r.choice(["5", " # pinned", ", axis=0", "0"])
        a, b2 = s + first, s + first + second
        if r.random() < 0.3:
            b2 += "\n" + "another line %d" % r.randrange(99)
        loc["cells"][k]["source"], rem["cells"][k]["source"] = (a, b2) if r.random() < 0.5 else (b2, a)
    elif cls == "whitespace_only":
        s = base["cells"][k]["source"]
        loc["cells"][k]["source"] = s.replace(" ", "  ", 1) if " " in s else s + " "
        rem["cells"][k]["source"] = s + ("\n" if not s.endswith("\n") else "") + "remote adds %d" % r.randrange(99)
    return cls, base, loc, rem, info


def judge(col, paths, cls, b, l, rm, info, variant):
    from .. import nbd
    from ..gen_nb import to_node
    from ..workloads import merge_args
    col.eval()
    nbd.hygiene()
    os.environ["PATH"] = paths[variant]
    if variant == "full" and "git_styles" in paths:
        from .. import env as _env
        col.count("git_conflictstyle:" + _env.rotate_git_style(paths["git_styles"]))
    case = {"base": b, "local": l, "remote": rm, "class": cls, "info": info, "path_variant": variant, "config": DEFAULT}
    try:
        merged, dec = nbd.merge_notebooks(to_node(b), to_node(l), to_node(rm), merge_args(DEFAULT))
    except Exception:
        col.count("merge_raised(C03's business)")
        return
    finally:
        os.environ["PATH"] = paths["full"]
    col.count("renderer:" + variant)
    bl, ll, rl = source_lines(b), source_lines(l), source_lines(rm)
    ml = source_lines(merged)
    added = (ll | rl) - bl
    added.discard("")
    # a text line glued to a marker ("x = 1>>>>>>> remote", "x||||||| base"): one root cause that shows up
    # as a fabricated line, as a dropped line and as a missing variant at once
    fused = [x for x in ml if x.strip() and x not in (bl | ll | rl) and not is_marker(x)
             and any(t in x for t in ("<<<<<<<", ">>>>>>>", "=======", "|||||||"))]
    fused_prefixes = set()
    for x in fused:
        for t in ("<<<<<<<", ">>>>>>>", "=======", "|||||||"):
            if t in x:
                fused_prefixes.add(x.split(t)[0])
    if fused:
        col.violation("marker-fused-to-unterminated-line:" + variant_group(variant),
                      "%s: merged source line %r is an input line glued to a conflict marker [class=%s]" % (variant, fused[0][:100], cls), case, "provenance")
    col.mon("survival")
    lost = sorted(x for x in added if x not in ml and x not in fused_prefixes)
    if lost:
        col.violation("added-line-dropped:" + variant_group(variant), "%s: line %r added by %s is missing from merged sources [class=%s]" % (
            variant, lost[0][:80], "local" if lost[0] in ll else "remote", cls), case, "survival")
    col.mon("provenance")
    allowed = bl | ll | rl
    fab = sorted(x for x in ml if x.strip() and x not in allowed and not is_marker(x) and x not in fused)
    if fab:
        col.violation("fabricated-line:" + variant_group(variant),
                      "%s: merged source line %r comes from no input and is no marker [class=%s]" % (variant, fab[0][:100], cls), case, "provenance")
    nmark = sum(1 for x in ml if is_marker(x))
    if nmark:
        col.count("merges_with_markers:" + variant)
    if cls == "same_line" and b["nbformat_minor"] == 5 and info.get("id"):
        col.mon("flagging")
        conflict = any(d.get("conflict") for d in dec)
        cell = [c for c in merged["cells"] if c.get("id") == info["id"]]
        if not conflict:
            col.violation("same-line-conflict-not-flagged:" + variant_group(variant), "%s: both sides rewrote line %d differently, no decision is conflicted" % (
                variant, info["line"]), case, "flagging")
        elif not cell:
            col.violation("same-line-conflict-cell-missing:" + variant_group(variant), "cell %s not in merged" % info["id"], case, "flagging")
        else:
            cl = set(lines_of(cell[0]["source"]))
            missing = [v for v in (info["local_line"], info["remote_line"]) if v not in cl and v not in fused_prefixes]
            if missing:
                col.violation("same-line-conflict-variant-missing:" + variant_group(variant), "%s: variant %r not presented in the merged cell" % (
                    variant, missing[0][:80]), case, "flagging")
        col.count("forced_same_line_conflicts")
    if added:
        col.nt(chash(b, l, rm, variant))
        col.count("class:" + cls)
    if len(col.samples) < 2 and nmark and len(merged["cells"]) <= 3:
        col.sample({"class": cls, "renderer": variant, "merged_sources": [c["source"] for c in merged["cells"]]})


def variant_group(v):
    return {"full": "git", "diffonly": "diff3", "bare": "builtin", "spaced": "git", "diffnodiff3": "builtin"}[v]


def run_shard(spec):
    from ..gen_nb import NBGen, validate_nb
    from ..workloads import valid_triple
    col = Collector(ID)
    scratch = os.environ.get("VMON_SCRATCH", "/tmp")
    paths = env.make_path_variants(os.path.join(scratch, "paths-%s" % spec.get("shard", 0)))
    paths["git_styles"] = env.git_style_variants(os.path.join(scratch, "paths-%s" % spec.get("shard", 0)))
    os.chdir(scratch)
    r = random.Random(spec["seed"])
    if "replay" in spec:
        c = spec["replay"]["case"]
        judge(col, paths, c.get("class", "replay"), c["base"], c["local"], c["remote"], c.get("info") or {}, c.get("path_variant", "full"))
        return col.result()
    for k in range(spec["triples"]):
        gen = NBGen(r, exotic=False, crlf=False)
        if k % 4 == 1:
            cls, b, l, rm, info = extra_triple(gen, 5 if k % 8 == 1 else None)
            if validate_nb(b) or validate_nb(l) or validate_nb(rm):
                col.count("generator_waste_invalid")
                continue
        else:
            want = "same_line" if k % 4 == 3 else None
            if k % 4 == 2:
                # the classes where whole cells can get lost: concurrent insertions of several cells, cells next to
                # deleted ones
                want = r.choice(["both_insert_lists", "both_insert_lists", "same_id_insert", "both_insert_dissimilar", "insert_near", None])
            cls, b, l, rm, info, waste = valid_triple(gen, cls=want, minor=(5 if want and k % 8 != 7 else None), plain_eol=True)
            if cls is None:
                continue
        from ..workloads import _plain
        for nb in (b, l, rm):
            for c in nb["cells"]:
                c["source"] = _plain(c["source"])
        if k % 10 == 0:      # CRLF variant of the whole triple
            for nb in (b, l, rm):
                for c in nb["cells"]:
                    c["source"] = c["source"].replace("\n", "\r\n")
            if isinstance(info, dict) and "local_line" in info:
                pass
        for variant in ("full", "diffonly", "bare") + (("spaced",) if k % 4 == 0 else ()) + (("diffnodiff3",) if k % 4 == 2 else ()):
            judge(col, paths, cls, b, l, rm, info or {}, variant)
    return col.result()
