"""C01 Notebook diff followed by patch reproduces the target notebook exactly."""
import json
import os
import random
import subprocess
import sys

from ..collect import Collector
from ..canon import chash, canon, to_plain, seq, first_difference
from .. import env

ID = "C01"
LEVEL = "exploration"
RULE = ("pairs (A,B) of schema-valid v4 notebooks (minor 0-5, with/without ids): related by seeded edit scripts "
        "(insert/delete/move/duplicate/edit cells, outputs, attachments, metadata, line endings, minor change), unrelated, "
        "fixture-derived, and targeted classes (similarity thresholds, short sources, base64, pointer-only, mime key sets, "
        "output kinds, attachments, metadata value types, Unicode separators). Non-trivial: A != B and (>=2 leaf ops or "
        "diff depth >= 3), distinct by canonical hash. Oracles per pair: nbdime patch == B, reference patcher == B, "
        "diff empty iff identical, no exception; file interface nbdiff --out / nbpatch -o in-process and via subprocess.")
FLOOR = {"quick": 1200, "thorough": 20000}
REQUIRED_MONITORS = ("roundtrip", "file_interface", "file_interface_subprocess")
ASSUMPTIONS = ["reference patcher vmon/refdiff.py encodes docs/source/diffing.rst",
               "nbformat.read/write normalisations cancel out: the expected file is B pushed through nbformat.writes",
               "generated notebooks are self-checked with jsonschema against nbformat's per-minor schema"]
NSHARDS = 16


def plan(tier, seed):
    n = 220 if tier == "quick" else 3800
    specs = [{"i": i, "pairs": n, "file_every": 10, "subproc": 6 if tier == "quick" else 60,
              "timeout": 600 if tier == "quick" else 2400} for i in range(NSHARDS)]
    # two more shards under `python -O` (assert statements compiled away, as PYTHONOPTIMIZE=1 deployments run)
    specs += [dict(specs[i], python_flags=["-O"], subproc=0) for i in (0, 1)]
    return specs


def classify_exc(key, tmpl):
    if key == "RuntimeError@diffing.generic:diff" and tmpl.startswith("Can currently only diff"):
        return "mime-diff-of-non-container-json"
    return "exception:" + key


def judge(col, cls, a, b, rec):
    from .. import nbd
    from ..gen_nb import to_node
    from ..oracles import roundtrip_findings
    from ..refdiff import count_leaf_ops, diff_depth
    col.eval()
    col.count("class:" + cls)
    nbd.hygiene()
    na, nb_ = to_node(a), to_node(b)
    case = {"A": a, "B": b, "class": cls, "record": rec}
    try:
        d = nbd.diff_notebooks(na, nb_)
        p = nbd.patch_notebook(na, d)
    except Exception as e:
        key, tmpl = nbd.exc_key(e)
        col.violation(classify_exc(key, tmpl), "%s: %s" % (key, str(e)[:200]), case, "no-exception")
        col.count("exception")
        return None
    col.mon("roundtrip")
    for mech, clause, detail in roundtrip_findings(a, b, d, p, want_empty_iff_identical=True):
        col.violation(mech, detail, case, clause)
    pd = to_plain(d)
    if canon(a) != canon(b):
        nops, depth = count_leaf_ops(pd), diff_depth(pd)
        if nops >= 2 or depth >= 3:
            col.nt(chash(a, b))
        col.count("minor:%d" % a["nbformat_minor"])
        if len(col.samples) < 2 and 2 <= nops <= 6:
            col.sample({"class": cls, "record": rec, "diff": pd, "A_cells": len(a["cells"]), "B_cells": len(b["cells"]),
                        "minor": a["nbformat_minor"]})
    else:
        col.count("identical_pairs")
    return pd


def expected_file(b):
    import nbformat
    from ..gen_nb import to_node
    return json.loads(nbformat.writes(to_node(b)))


def file_interface(col, cls, a, b, rec, tmp, r, subproc):
    """nbdiff A B --out D ; nbpatch A D -o G ; parsed(G) == parsed(nbformat.write(B))."""
    from ..gen_nb import disk_form
    fa, fb, fd, fg = (os.path.join(tmp, n) for n in ("A.ipynb", "B.ipynb", "D.json", "G.ipynb"))
    for fn, nb in ((fa, a), (fb, b)):
        with open(fn, "w", encoding="utf8") as f:
            json.dump(disk_form(nb, r), f, ensure_ascii=r.random() < 0.5)
    inplace = col.evaluations % 5 == 2
    if inplace:
        # `nbpatch nb.ipynb d.json -o nb.ipynb`: the notebook is patched IN PLACE (the output names the base file)
        col.count("file_interface_patched_in_place")
    # D.json and G.ipynb are deliberately NOT removed: a user re-uses the same output paths, and a longer file
    # left over from the previous pair must be fully replaced
    case = {"A": a, "B": b, "class": cls, "record": rec, "file_interface": "subprocess" if subproc else "in-process"}
    try:
        if subproc:
            e = dict(os.environ)
            if col.evaluations % 2 == 0:
                # a process locale that is not UTF-8 (cron jobs, minimal containers, LANG=C ssh sessions): the files the
                # two commands exchange must not depend on it
                e.update({"LC_ALL": "C", "LANG": "C", "PYTHONUTF8": "0", "PYTHONCOERCECLOCALE": "0"})
                e.pop("PYTHONIOENCODING", None)
                col.count("file_interface_subprocess_under_C_locale")
            p1 = subprocess.run([sys.executable, "-m", "nbdime.nbdiffapp", fa, fb, "--out", fd], env=e, cwd=tmp,
                                capture_output=True, timeout=120)
            rc1 = p1.returncode
            p2 = subprocess.run([sys.executable, "-m", "nbdime.nbpatchapp", fa, fd, "-o", fa if inplace else fg], env=e, cwd=tmp,
                                capture_output=True, timeout=120)
            rc2 = p2.returncode
            errtxt = (p1.stderr + p2.stderr).decode(errors="replace")[-300:]
        else:
            from .. import nbd
            import nbdime.nbdiffapp
            import nbdime.nbpatchapp
            nbd.hygiene()
            cwd = os.getcwd()
            os.chdir(tmp)
            try:
                rc1 = nbdime.nbdiffapp.main([fa, fb, "--out", fd])
                rc2 = nbdime.nbpatchapp.main([fa, fd, "-o", fa if inplace else fg])
            finally:
                os.chdir(cwd)
            errtxt = ""
    except Exception as e:
        from .. import nbd
        key, tmpl = nbd.exc_key(e)
        col.violation(classify_exc(key, tmpl), "file interface: %s: %s" % (key, str(e)[:200]), case, "file-interface-no-exception")
        return
    if rc1 != 0 or rc2 != 0:
        mech = "file-interface-nonzero-exit"
        if "Can currently only diff" in errtxt:
            mech = "mime-diff-of-non-container-json"
        col.violation(mech, "rc nbdiff=%s nbpatch=%s %s" % (rc1, rc2, errtxt), case, "file-interface")
        return
    col.mon("file_interface_subprocess" if subproc else "file_interface")
    try:
        with open(fa if inplace else fg, encoding="utf8") as f:
            got = json.load(f)
    except Exception as e:
        col.violation("file-interface-output-unreadable", repr(e)[:200], case, "file-interface")
        return
    want = expected_file(b)
    if not seq(got, want):
        from ..oracles import numeric_only
        mech = "numeric-type-only" if numeric_only(want, got) else "file-interface-result-differs"
        col.violation(mech, first_difference(got, want), case, "file-interface")
    # the diff file itself must be JSON equal to what the library returns
    col.count("file_interface_pairs")


def run_shard(spec):
    from ..gen_nb import NBGen, self_check
    from ..workloads import valid_pair
    col = Collector(ID)
    tmp = os.environ.get("VMON_SCRATCH", "/tmp")
    tmp = os.path.join(tmp, "c01-%s" % spec.get("shard", 0))
    os.makedirs(tmp, exist_ok=True)
    r = random.Random(spec["seed"])
    if "replay" in spec:
        c = spec["replay"]["case"]
        judge(col, c.get("class", "replay"), c["A"], c["B"], c.get("record"))
        if c.get("file_interface"):
            file_interface(col, c.get("class", "replay"), c["A"], c["B"], c.get("record"), tmp, r, c["file_interface"] == "subprocess")
        return col.result()
    subleft = spec["subproc"]
    from .. import nbd as _nbd
    import nbdime.diffing.notebooks as _dn
    import nbdime.diffing.snakes as _sn
    import nbdime.diff_utils as _du
    _nbd.count_calls(col, {
        "compare_cell_by_ids": _dn.compare_cell_by_ids, "compare_cell_strict": _dn.compare_cell_strict,
        "compare_cell_moderate": _dn.compare_cell_moderate, "compare_cell_approximate": _dn.compare_cell_approximate,
        "compare_output_strict": _dn.compare_output_strict, "compare_output_approximate": _dn.compare_output_approximate,
        "_is_base64": _dn._is_base64, "diff_single_outputs": _dn.diff_single_outputs, "diff_attachments": _dn.diff_attachments,
        "diff_mime_bundle": _dn.diff_mime_bundle, "compute_snakes_multilevel": _sn.compute_snakes_multilevel,
        "flatten_list_of_string_diff": _du.flatten_list_of_string_diff, "_combine_ops": _du._combine_ops})
    for k in range(spec["pairs"]):
        gen = NBGen(r, exotic=(k % 3 == 0), hostile=True)
        cls, a, b, rec, waste = valid_pair(gen)
        if waste:
            col.count("generator_waste_invalid", waste)
        if cls is None:
            continue
        if k % 25 == 0 and not self_check(a, r):
            col.inconc("generator normal form differs from nbformat.reads")
            continue
        pd = judge(col, cls, a, b, rec)
        if pd is None:
            continue
        if k % spec["file_every"] == 0:
            file_interface(col, cls, a, b, rec, tmp, r, False)
        elif subleft > 0 and k % 7 == 3:
            subleft -= 1
            file_interface(col, cls, a, b, rec, tmp, r, True)
    return col.result()
