"""C18 Git integration setup is idempotent and never touches foreign settings."""
import hashlib
import itertools
import os
import random
import shutil
import subprocess
import sys

from ..collect import Collector
from ..canon import chash

ID = "C18"
LEVEL = "exploration"
NEEDS_STUBS = True
RULE = ("initial states drawn from merge.tool x diff.guitool in {unset, nbdime, meld, foreign tools named like nbdime (nbdime-wrapper, my-nbdime, nbdime2)} in the scope under test and, independently, in the other scope, difftool.prompt x mergetool.prompt in {unset, true, "
        "false}, unrelated keys, attributes file in {absent, unrelated rules with/without final newline, already nbdime's lines, "
        "'*.ipynb diff=other'}, scope in {repository, global (scratch HOME; XDG_CONFIG_HOME a directory / unset / empty; sometimes core.attributesfile)}; then every "
        "sequence of up to 3 real commands from {nbdime config-git, git-nbdiffdriver|git-nbmergedriver|git-nbdifftool|git-nbmergetool "
        "config} x {--enable, --disable} [--set-default] run as processes against real git. After every command: git config of both "
        "scopes, bytes of the attributes files and a hash tree of HOME and the repository are compared with the state before. "
        "Refuted by: enable;enable != enable; a key outside nbdime's own set changed/disappeared (diff.guitool / merge.tool only with "
        "--set-default or when they were 'nbdime'); attributes lost/reordered a line or gained anything but one diff and one merge line; "
        "driver keys still resolve after disable; `git check-attr diff merge -- x.ipynb` not routed to jupyternotebook after a driver was enabled; a file outside {scope config, scope attributes} changed. "
        "Non-trivial: a sequence that changes the snapshot at least once from a state with >= 1 foreign setting; distinct by (initial state, sequence).")
FLOOR = {"quick": 150, "thorough": 3000}
REQUIRED_MONITORS = ("foreign_keys", "idempotence", "attributes", "disabled", "enabled", "files")
ASSUMPTIONS = ["--system scope is not exercised (needs a writable /etc/gitconfig)", "HOME, XDG_CONFIG_HOME isolated; GIT_CONFIG_NOSYSTEM=1",
               "enable overwriting the prompt keys is allowed (the no-prompt defaults those tools set)",
               "jupyter_server / jinja2 are stubbed so that git-nbdifftool / git-nbmergetool / nbdime config-git can be imported"]
NSHARDS = 16
OWN_PREFIX = ("diff.jupyternotebook.", "merge.jupyternotebook.", "difftool.nbdime.", "mergetool.nbdime.")
DIFF_LINE = "*.ipynb\tdiff=jupyternotebook"
MERGE_LINE = "*.ipynb\tmerge=jupyternotebook"

TOOLS = ["nbdime config-git", "git-nbdiffdriver config", "git-nbmergedriver config", "git-nbdifftool config", "git-nbmergetool config"]


def plan(tier, seed):
    if tier == "quick":
        return [{"states": 2, "seqs": 14, "timeout": 1200} for i in range(NSHARDS)]
    return [{"states": 14, "seqs": 40, "timeout": 3300} for i in range(NSHARDS)]


def all_commands():
    cmds = []
    for t in TOOLS:
        for act in ("--enable", "--disable"):
            cmds.append((t, act, False))
            if "tool" in t and act == "--enable":
                cmds.append((t, act, True))
    return cmds


class World:
    def __init__(self, root, r, scope, state):
        self.root = root
        self.r = r
        self.scope = scope
        self.state = state
        self.home = os.path.join(root, "home")
        self.xdg = os.path.join(root, "xdg")
        self.repo = os.path.join(root, "repo")
        self.env = dict(os.environ, HOME=self.home, XDG_CONFIG_HOME=self.xdg, GIT_CONFIG_NOSYSTEM="1")
        self.env.pop("GIT_CONFIG_GLOBAL", None)
        # XDG_CONFIG_HOME: a directory, unset, or set but EMPTY (git and the XDG spec treat empty as unset:
        # the global attributes file is then $HOME/.config/git/attributes)
        self.xdg_mode = state.get("xdg", "dir")
        if self.xdg_mode == "unset":
            self.env.pop("XDG_CONFIG_HOME", None)
        elif self.xdg_mode == "empty":
            self.env["XDG_CONFIG_HOME"] = ""
        self.custom_attr = None

    def git(self, *a, check=True, cwd=None):
        p = subprocess.run(["git"] + list(a), cwd=cwd or self.repo, env=self.env, capture_output=True, timeout=60)
        if check and p.returncode != 0:
            raise RuntimeError("git %r: %s" % (a, p.stderr.decode(errors="replace")[-200:]))
        return p

    def build(self):
        shutil.rmtree(self.root, ignore_errors=True)
        for d in (self.home, self.xdg, self.repo):
            os.makedirs(d)
        # repository layout: a plain `git init`, a repository whose git directory lives elsewhere (`.git` is a FILE
        # pointing there), or a linked work tree of another repository (`git worktree add`: `.git` is a file too)
        layout = self.state.get("layout", "plain")
        self.gitcommon = os.path.join(self.repo, ".git")
        if layout == "separate-git-dir":
            self.gitcommon = os.path.join(self.root, "elsewhere.git")
            self.git("init", "-q", "-b", "main", "--separate-git-dir", self.gitcommon, self.repo, cwd=self.root)
        elif layout == "linked-worktree":
            main = os.path.join(self.root, "main-repo")
            os.makedirs(main)
            self.git("init", "-q", "-b", "main", cwd=main)
            self.git("-c", "user.name=v", "-c", "user.email=v@v", "commit", "-q", "--allow-empty", "-m", "root", cwd=main)
            os.rmdir(self.repo)
            self.git("worktree", "add", "-q", "-b", "wt", self.repo, cwd=main)
            self.gitcommon = os.path.join(main, ".git")
        else:
            self.git("init", "-q", "-b", "main")
        st = self.state
        sflag = ["--global"] if self.scope == "global" else ["--local"]
        # foreign settings in BOTH scopes (the other scope must never change)
        for flag in (["--global"], ["--local"]):
            self.git("config", *flag, "user.name", "Some Body")
            self.git("config", *flag, "alias.co", "checkout")
            self.git("config", *flag, "diff.tool", "vimdiff")
            self.git("config", *flag, "merge.conflictstyle", "diff3")
            self.git("config", *flag, "difftool.meld.cmd", "meld $LOCAL $REMOTE")
            self.git("config", *flag, "mergetool.meld.cmd", "meld $BASE $LOCAL $REMOTE")
            self.git("config", *flag, "diff.other.command", "otherdiff")
        for key, val in (("merge.tool", st["merge.tool"]), ("diff.guitool", st["diff.guitool"]),
                         ("difftool.prompt", st["difftool.prompt"]), ("mergetool.prompt", st["mergetool.prompt"])):
            if val is not None:
                self.git("config", *sflag, key, val)
        # the drivers registered BY HAND, as docs/source/vcs.rst shows it (no `name` line, maybe extra keys): disabling
        # must still remove them
        man = st.get("manual")
        if man in ("merge", "both"):
            self.git("config", *sflag, "merge.jupyternotebook.driver", "git-nbmergedriver merge %O %A %B %L %P")
        if man in ("diff", "both"):
            self.git("config", *sflag, "diff.jupyternotebook.command", "git-nbdiffdriver diff")
        # the OTHER scope has its own defaults (a repository-local value shadows the global one in plain `git config key`)
        oflag = ["--local"] if self.scope == "global" else ["--global"]
        for key in ("merge.tool", "diff.guitool"):
            val = st.get("other:" + key)
            if val is not None:
                self.git("config", *oflag, key, val)
        if self.scope == "global" and st.get("custom_attributesfile"):
            self.custom_attr = os.path.join(self.home, "my attrs", "gitattributes")
            self.git("config", "--global", "core.attributesfile", self.custom_attr)
        content = {"absent": None, "unrelated": "*.png binary\n*.txt text\n", "unrelated_nonl": "*.png binary\n# comment",
                   "already": "*.png binary\n\n" + DIFF_LINE + "\n\n" + MERGE_LINE + "\n", "other_driver": "*.ipynb diff=other\n*.py text\n"}[st["attributes"]]
        if content is not None:
            p = self.attr_path()
            os.makedirs(os.path.dirname(p), exist_ok=True)
            with open(p, "w") as f:
                f.write(content)
        # a file that must never change
        with open(os.path.join(self.repo, "notebook.ipynb"), "w") as f:
            f.write("{}\n")

    def attr_path(self):
        if self.scope == "global":
            if self.custom_attr:
                return self.custom_attr
            if self.xdg_mode == "dir":
                return os.path.join(self.xdg, "git", "attributes")
            return os.path.join(self.home, ".config", "git", "attributes")
        return os.path.join(self.repo, ".gitattributes")

    def config(self, flag):
        p = self.git("config", flag, "--list", "-z", check=False)
        out = {}
        for item in p.stdout.decode("utf8", "replace").split("\0"):
            if not item:
                continue
            k, _, v = item.partition("\n")
            out.setdefault(k, []).append(v)
        return out

    def tree(self):
        h = {}
        bases = [self.home, self.xdg, self.repo]
        if not self.gitcommon.startswith(self.repo + os.sep):
            bases.append(os.path.dirname(self.gitcommon) if self.gitcommon.endswith(os.sep + ".git") else self.gitcommon)
        for base in bases:
            for dp, dn, fn in os.walk(base):
                if os.sep + "objects" in dp or os.sep + "hooks" in dp or os.sep + "logs" in dp:
                    continue
                for f in fn:
                    p = os.path.join(dp, f)
                    try:
                        with open(p, "rb") as fh:
                            h[os.path.relpath(p, self.root)] = hashlib.sha1(fh.read()).hexdigest()
                    except OSError:
                        h[os.path.relpath(p, self.root)] = "unreadable"
        return h

    def snapshot(self):
        ap = self.attr_path()
        attr = None
        if os.path.exists(ap):
            with open(ap, "rb") as f:
                attr = f.read()
        return {"local": self.config("--local"), "global": self.config("--global"), "attr": attr, "tree": self.tree()}

    def run(self, cmd):
        tool, act, setdef = cmd
        entry, *sub = tool.split(" ")
        argv = sub + [act] + (["--set-default"] if setdef else []) + (["--global"] if self.scope == "global" else [])
        p = subprocess.run([sys.executable, "-m", "vmon.launcher", entry, "--"] + argv, cwd=self.repo, env=self.env, capture_output=True, timeout=120)
        return p.returncode, p.stderr.decode(errors="replace")[-300:]


def own_key(k, cmd, before_val):
    tool, act, setdef = cmd
    if k.startswith(OWN_PREFIX):
        return True
    if k in ("difftool.prompt", "mergetool.prompt"):
        return True
    if k in ("diff.guitool", "merge.tool"):
        if act == "--enable":
            return setdef and (("difftool" in tool and k == "diff.guitool") or ("mergetool" in tool and k == "merge.tool"))
        return before_val == ["nbdime"]
    return False


def judge_step(col, w, cmd, before, after, rc, err, wit):
    scope_key = "global" if w.scope == "global" else "local"
    other = "local" if scope_key == "global" else "global"
    tool, act, setdef = cmd
    col.mon("foreign_keys")
    if before[other] != after[other]:
        col.violation("other-scope-config-changed", "%s changed the %s config" % (cmd, other), wit, "foreign")
    b, a = before[scope_key], after[scope_key]
    for k in sorted(set(b) | set(a)):
        if b.get(k) != a.get(k) and not own_key(k, cmd, b.get(k)):
            mech = "foreign-key-changed:%s" % k
            if k == "merge.tool" and act == "--disable":
                mech = "disable-unsets-foreign-merge.tool"
            if k == "diff.guitool" and act == "--disable":
                mech = "disable-unsets-foreign-diff.guitool"
            col.violation(mech, "%s %s%s: %s was %r, now %r" % (tool, act, " --set-default" if setdef else "", k, b.get(k), a.get(k)), wit, "foreign")
    # attributes
    col.mon("attributes")
    ba, aa = before["attr"], after["attr"]
    if ba != aa:
        if act == "--disable":
            pass      # disabling may leave or clean up its own lines: judged below for foreign content
        old_lines = (ba or b"").decode("utf8", "replace").split("\n")
        new_lines = (aa or b"").decode("utf8", "replace").split("\n")
        old_sig = [l for l in old_lines if l.strip()]
        new_sig = [l for l in new_lines if l.strip()]
        # pre-existing non-blank lines kept in order
        it = iter(new_sig)
        kept = all(any(x == l for x in it) for l in old_sig if l not in (DIFF_LINE, MERGE_LINE)) if aa is not None else not [l for l in old_sig if l not in (DIFF_LINE, MERGE_LINE)]
        if not kept:
            col.violation("attributes-lost-or-reordered-line", "%s: %r -> %r" % (cmd, ba, aa), wit, "attributes")
        gained = list(new_sig)
        for l in old_sig:
            if l in gained:
                gained.remove(l)
        bad = [l for l in gained if l not in (DIFF_LINE, MERGE_LINE)]
        if bad:
            col.violation("attributes-gained-foreign-content", "%s gained %r" % (cmd, bad[:3]), wit, "attributes")
    if aa is not None:
        txt = aa.decode("utf8", "replace")
        for line in (DIFF_LINE, MERGE_LINE):
            if txt.count(line) > 1:
                col.violation("attributes-line-duplicated", "%r appears %d times after %s" % (line, txt.count(line), cmd), wit, "attributes")
    # disabled => keys do not resolve in that scope
    if act == "--disable":
        # whatever the command's exit status: after a disable the drivers it is responsible for must be gone
        col.mon("disabled")
        if tool in ("nbdime config-git", "git-nbdiffdriver config") and "diff.jupyternotebook.command" in a:
            col.violation("diff-driver-still-configured-after-disable", str(cmd), wit, "disable")
        if tool in ("nbdime config-git", "git-nbmergedriver config") and "merge.jupyternotebook.driver" in a:
            col.violation("merge-driver-still-configured-after-disable", str(cmd), wit, "disable")
    # enabled => git routes notebooks to the driver (one attributes line per driver must be in effect)
    if act == "--enable" and tool in ("nbdime config-git", "git-nbdiffdriver config", "git-nbmergedriver config"):
        col.mon("enabled")
        p = w.git("check-attr", "diff", "merge", "--", "x.ipynb", check=False)
        attrs = {}
        for line in p.stdout.decode("utf8", "replace").splitlines():
            parts = line.split(": ")
            if len(parts) == 3:
                attrs[parts[1]] = parts[2]
        if tool in ("nbdime config-git", "git-nbdiffdriver config") and attrs.get("diff") != "jupyternotebook":
            col.violation("diff-driver-not-routed-after-enable", "%s: git check-attr diff x.ipynb = %r, attributes %r" % (cmd, attrs.get("diff"), aa), wit, "enable")
        if tool in ("nbdime config-git", "git-nbmergedriver config") and attrs.get("merge") != "jupyternotebook":
            col.violation("merge-driver-not-routed-after-enable", "%s: git check-attr merge x.ipynb = %r, attributes %r" % (cmd, attrs.get("merge"), aa), wit, "enable")
    # files
    col.mon("files")
    allowed = {os.path.relpath(p, w.root) for p in (os.path.join(w.gitcommon, "config"), os.path.join(w.home, ".gitconfig"), w.attr_path())}
    changed = {p for p in set(before["tree"]) | set(after["tree"]) if before["tree"].get(p) != after["tree"].get(p)}
    if changed - allowed:
        col.violation("file-outside-config-and-attributes-changed", "%s touched %s" % (cmd, sorted(changed - allowed)[:4]), wit, "files")
    if scope_key == "global" and os.path.relpath(os.path.join(w.gitcommon, "config"), w.root) in changed:
        col.violation("global-command-wrote-repository-config", str(cmd), wit, "files")
    return before["local"] != after["local"] or before["global"] != after["global"] or ba != aa


def run_shard(spec):
    col = Collector(ID)
    r = random.Random(spec["seed"])
    root = os.path.join(os.environ.get("VMON_SCRATCH", "/tmp"), "c18-%s" % spec.get("shard", 0))
    cmds = all_commands()
    # (foreign tools include ones whose NAME contains "nbdime": a wrapper script, a fork - still not nbdime's to unset)
    tools3 = [None, None, "nbdime", "nbdime", "meld", "meld", "nbdime-wrapper", "my-nbdime", "nbdime2"]
    if "replay" in spec:
        c = spec["replay"]["case"]
        seqs = [[tuple(x) for x in c["sequence"]]]
        states = [(c["scope"], c["state"])]
    else:
        states = []
        for _ in range(spec["states"]):
            st = {"merge.tool": r.choice(tools3), "diff.guitool": r.choice(tools3), "difftool.prompt": r.choice([None, "true", "false"]),
                  "mergetool.prompt": r.choice([None, "true", "false"]),
                  "attributes": r.choice(["absent", "unrelated", "unrelated_nonl", "already", "other_driver"]),
                  "custom_attributesfile": r.random() < 0.25, "xdg": r.choice(["dir", "dir", "unset", "empty"]),
                  "layout": r.choice(["plain", "plain", "separate-git-dir", "linked-worktree"]),
                  "manual": r.choice([None, None, None, "merge", "diff", "both"]),
                  "other:merge.tool": r.choice(tools3), "other:diff.guitool": r.choice(tools3)}
            states.append((r.choice(["repository", "global"]), st))
        seqs = None
    for scope, st in states:
        if seqs is None:
            pairs = [list(p) for p in itertools.product(cmds, repeat=2)]
            r.shuffle(pairs)
            myseqs = [[c] for c in cmds][: max(4, spec["seqs"] // 3)] + pairs[: spec["seqs"] // 2]
            # always the idempotence pairs and the interesting triples
            for c in cmds:
                if c[1] == "--enable":
                    myseqs.append([c, c])
            myseqs += [[r.choice(cmds), r.choice(cmds), r.choice(cmds)] for _ in range(spec["seqs"] // 4)]
            # everything enabled, one part disabled on its own, then everything disabled (and the mirror image)
            parts = [c for c in cmds if c[0] != "nbdime config-git" and c[1] == "--disable"]
            part = r.choice(parts)
            partial = [[("nbdime config-git", "--enable", False), part, ("nbdime config-git", "--disable", False)],
                       [("nbdime config-git", "--disable", False), (part[0], "--enable", False), ("nbdime config-git", "--enable", False)]]
            r.shuffle(myseqs)
            myseqs = myseqs[: spec["seqs"]] + [[c, c] for c in cmds if c[1] == "--enable"][:3] + partial
        else:
            myseqs = seqs
        for seq in myseqs:
            w = World(root, r, scope, st)
            try:
                w.build()
            except RuntimeError as e:
                col.inconc("git harness: %s" % e)
                continue
            col.eval()
            changed_any = False
            snaps = [w.snapshot()]
            wit0 = {"scope": scope, "state": st, "sequence": [list(c) for c in seq]}
            for i, cmd in enumerate(seq):
                rc, err = w.run(cmd)
                after = w.snapshot()
                wit = dict(wit0, step=i)
                if rc != 0:
                    col.count("command_nonzero_exit:%s" % cmd[0])
                    if "Traceback" in err:
                        col.violation("config-command-crashed:%s" % cmd[0], "%s rc=%s %s" % (cmd, rc, err[-200:]), wit, "runs")
                changed_any |= judge_step(col, w, cmd, snaps[-1], after, rc, err, wit)
                col.count("cmd:%s %s%s" % (cmd[0], cmd[1], " --set-default" if cmd[2] else ""))
                # idempotence: same enable command twice in a row
                if i > 0 and seq[i - 1] == cmd and cmd[1] == "--enable":
                    col.mon("idempotence")
                    prev = snaps[-1]
                    if (prev["local"], prev["global"], prev["attr"]) != (after["local"], after["global"], after["attr"]):
                        col.violation("enable-not-idempotent", "second %s changed the state again" % (cmd,), wit, "idempotence")
                snaps.append(after)
            foreign = st["merge.tool"] not in (None, "nbdime") or st["diff.guitool"] not in (None, "nbdime") or st["attributes"] in ("unrelated", "unrelated_nonl", "other_driver")
            if changed_any and foreign:
                col.nt(chash(scope, st, [list(c) for c in seq]))
                col.count("scope:" + scope)
                col.count("repository_layout:" + st.get("layout", "plain"))
                if scope == "global":
                    col.count("global_scope_XDG_CONFIG_HOME:" + st.get("xdg", "dir"))
                col.count("attributes_state:" + st["attributes"])
            if len(col.samples) < 2:
                col.sample({"scope": scope, "initial": st, "sequence": [" ".join([c[0], c[1]] + (["--set-default"] if c[2] else [])) for c in seq],
                            "attributes_after": (snaps[-1]["attr"] or b"").decode("utf8", "replace")})
    shutil.rmtree(root, ignore_errors=True)
    return col.result()
