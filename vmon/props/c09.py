"""C09 Merge decisions losslessly describe the merge and follow the published schema."""
import json
import os
import random

from ..collect import Collector
from ..canon import chash, canon, to_plain, seq, first_difference, NotPlainJSON

ID = "C09"
LEVEL = "exploration"
RULE = ("decision lists returned by merge_notebooks over the C03 triple stream (incl. 3-way different nbformat_minor), under "
        "'mergetool' (transients on/off) and a covering sample of the 280 CLI combinations; also the file written by "
        "`nbmerge --decisions --out`. Oracles: (1) independent applier refapply(base, decisions) == merged; (2) mergetool: choosing "
        "local/remote for every decision (action:=side where that side's diff is non-empty, else base) reproduces local/remote "
        "through both nbdime.apply_decisions and refapply; (3) Draft-4 validation against merge_format.schema.json (+diff schema "
        "as $ref target), plain JSON round trip, no internal 'strategy' key / 'parent_deleted' op; (4) ordering: no decision on an "
        "enclosing path precedes one inside it, and sequential application never fails to resolve a path or index. "
        "Non-trivial: >= 2 decisions on >= 2 distinct paths, at least one below /cells/*; distinct by hash of (triple, configuration).")
FLOOR = {"quick": 600, "thorough": 12000}
REQUIRED_MONITORS = ("refapply", "choose_side", "schema", "ordering", "decisions_file")
ASSUMPTIONS = ["vmon/refapply.py encodes docs/source/merging.rst + merge_format.schema.json",
               "'choose side S' = action S where the S-diff is non-empty, else base (what the TypeScript model does)",
               "merges that raise are C03's business and are only counted"]
OPTIMIZED_SHARDS = (0,)
NSHARDS = 16


def plan(tier, seed):
    if tier == "quick":
        return [{"triples": 250, "cfgs": 4, "file_every": 12, "timeout": 900} for i in range(NSHARDS)]
    return [{"triples": 1600, "cfgs": 6, "file_every": 25, "timeout": 3000} for i in range(NSHARDS)]


def has_internal(d):
    """internal artefacts that must not leak: 'strategy' key, 'parent_deleted' op"""
    if isinstance(d, dict):
        if d.get("op") == "parent_deleted":
            return "parent_deleted-op"
        for v in d.values():
            r = has_internal(v)
            if r:
                return r
    elif isinstance(d, list):
        for v in d:
            r = has_internal(v)
            if r:
                return r
    return None


def judge(col, b, l, rm, cfg, cls, info, merged, decisions, source="library"):
    from .. import nbd
    from ..gen_nb import to_node
    from ..refapply import refapply, RefApplyError, choose_side, ordering_problems
    from ..oracles import merge_schema, json_roundtrip_strict, numeric_only
    case = {"base": b, "local": l, "remote": rm, "config": cfg, "class": cls, "info": info, "source": source}
    # (3) plain JSON + schema
    col.mon("schema")
    try:
        pd = to_plain(decisions)
    except NotPlainJSON as e:
        col.violation("decisions-not-plain-json", str(e)[:200], case, "plain-json")
        return
    if not json_roundtrip_strict(decisions):
        col.violation("decisions-json-roundtrip", "json.loads(json.dumps(x)) != x", case, "plain-json")
    for i, d in enumerate(pd):
        if "strategy" in d:
            col.violation("internal-strategy-key-leaked", "decision %d has key 'strategy'" % i, case, "plain-json")
            break
        r = has_internal(d)
        if r:
            col.violation("internal-%s-leaked" % r, "decision %d" % i, case, "plain-json")
            break
    seen = set()
    for e in merge_schema().iter_errors(pd):
        path = list(e.absolute_path)
        key = "%s:%s" % ("/".join("*" if isinstance(p, int) else str(p) for p in path[1:]), e.validator)
        if e.validator == "enum" and path[-1:] == ["action"]:
            key = "action-not-in-schema:%s" % e.instance
        if key in seen:
            continue
        seen.add(key)
        col.violation("merge-schema:" + key, e.message[:200], case, "schema")
    # (4) ordering
    col.mon("ordering")
    op = ordering_problems(pd)
    if op:
        i, j = op[0]
        col.violation("enclosing-path-before-inner", "decision %d at %r precedes decision %d at %r" % (
            i, pd[i]["common_path"], j, pd[j]["common_path"]), case, "ordering")
    # (1) refapply == merged
    col.mon("refapply")
    pm = to_plain(merged)
    try:
        ra = refapply(b, pd)
    except RefApplyError as e:
        import re as _re
        m_ = _re.search(r"key '((?:LOCAL|REMOTE)_[^']*)' targeted twice", str(e))
        if m_:
            # the open C03 finding (attachment conflict on NAME while a side adds LOCAL_NAME / REMOTE_NAME itself) as it
            # looks when assert statements are compiled away (python -O): nbdime returns the decisions instead of raising
            col.violation("conflict-attachment-name-written-twice", str(e)[:200], case, "apply==merged")
        else:
            col.violation("refapply-failed:" + str(e).split(" ")[0][:30], str(e)[:200], case, "apply==merged")
        ra = None
    if ra is not None and not seq(ra, pm):
        mech = "numeric-type-only" if numeric_only(pm, ra) else "refapply-differs-from-merged"
        col.violation(mech, first_difference(ra, pm), case, "apply==merged")
    for d in pd:
        col.count("action:" + str(d.get("action")))
    # (2) choose side (mergetool only)
    if cfg["merge"] == "mergetool":
        col.mon("choose_side")
        for side, want in (("local", l), ("remote", rm)):
            cs = choose_side(pd, side)
            try:
                got = nbd.apply_decisions(to_node(b), [nbd.mg.MergeDecisionBuilder and _md(x) for x in cs])
                if not seq(got, want):
                    mech = "numeric-type-only" if numeric_only(want, got) else "choose-%s-does-not-reproduce-%s" % (side, side)
                    col.violation(mech, first_difference(got, want), case, "choose-side")
            except Exception as e:
                key, tmpl = nbd.exc_key(e)
                col.violation("choose-side-apply-raised:%s" % key, str(e)[:200], case, "choose-side")
            try:
                got2 = refapply(b, cs)
                if not seq(got2, want):
                    mech = "numeric-type-only" if numeric_only(want, got2) else "choose-%s-does-not-reproduce-%s(ref)" % (side, side)
                    col.violation(mech, first_difference(got2, want), case, "choose-side")
            except RefApplyError as e:
                col.violation("choose-side-refapply-failed", str(e)[:200], case, "choose-side")
    paths = {tuple(d["common_path"]) for d in pd}
    if len(pd) >= 2 and len(paths) >= 2 and any(len(p) >= 2 and p[0] == "cells" for p in paths):
        col.nt(chash(b, l, rm, cfg))
        col.count("class:" + cls)
    if len(col.samples) < 2 and 2 <= len(pd) <= 5:
        col.sample({"class": cls, "config": cfg, "decisions": [{"common_path": d["common_path"], "action": d["action"],
                                                                 "conflict": d["conflict"]} for d in pd]})


def _md(x):
    from nbdime.merging.decisions import MergeDecision
    from nbdime.diff_utils import to_diffentry_dicts
    d = MergeDecision(x)
    for f in ("local_diff", "remote_diff", "custom_diff", "similar_insert"):
        if d.get(f) is not None:
            d[f] = to_diffentry_dicts(d[f])
    d["common_path"] = tuple(d["common_path"])
    return d


def decisions_file(col, b, l, rm, cfg, cls, tmp, r):
    """nbmerge --decisions --out F: the file must hold the decision list the library returns"""
    from .. import nbd
    from ..gen_nb import disk_form, to_node
    from ..workloads import config_flags, merge_args
    import nbdime.nbmergeapp as app
    if cfg["merge"] == "mergetool":
        return
    fns = {}
    for name, nb in (("b", b), ("l", l), ("r", rm)):
        fns[name] = os.path.join(tmp, name + ".ipynb")
        with open(fns[name], "w", encoding="utf8") as f:
            json.dump(disk_form(nb, r), f)
    out = os.path.join(tmp, "dec.json")
    if os.path.exists(out):
        os.remove(out)
    nbd.hygiene()
    case = {"base": b, "local": l, "remote": rm, "config": cfg, "class": cls, "source": "nbmerge --decisions --out"}
    try:
        rc = app.main(config_flags(cfg) + ["--decisions", "--out", out, fns["b"], fns["l"], fns["r"]])
        nbd.quiet_logging()
        with open(out, encoding="utf8") as f:
            filedec = json.load(f)
    except Exception as e:
        key, tmpl = nbd.exc_key(e)
        col.count("decisions_file_raised:" + key)
        return
    nbd.hygiene()
    try:
        merged, dec = nbd.merge_notebooks(to_node(b), to_node(l), to_node(rm), merge_args(cfg))
    except Exception:
        return
    col.mon("decisions_file")
    # marker cells carry random ids: compare with ids of marker cells blanked
    if canon(_blank_marker_ids(filedec)) != canon(_blank_marker_ids(to_plain(dec))):
        col.violation("decisions-file-differs-from-library", first_difference(_blank_marker_ids(filedec), _blank_marker_ids(to_plain(dec))), case, "file")
    want_rc = 1 if any(d["conflict"] for d in dec) else 0
    if rc != want_rc:
        col.violation("decisions-file-exit-status", "rc=%s conflicts=%s" % (rc, want_rc), case, "file")


def _blank_marker_ids(x):
    if isinstance(x, dict):
        if x.get("cell_type") == "markdown" and isinstance(x.get("source"), str) and x["source"].startswith('<span style="color:red"><b>') and "id" in x:
            x = dict(x)
            x["id"] = "MARKER"
        return {k: _blank_marker_ids(v) for k, v in x.items()}
    if isinstance(x, list):
        return [_blank_marker_ids(v) for v in x]
    return x


def run_shard(spec):
    from .. import nbd
    from ..gen_nb import NBGen, to_node, to_node_shared
    from ..workloads import valid_triple, covering_configs, merge_args
    col = Collector(ID)
    r = random.Random(spec["seed"])
    tmp = os.path.join(os.environ.get("VMON_SCRATCH", "/tmp"), "c09-%s" % spec.get("shard", 0))
    os.makedirs(tmp, exist_ok=True)
    os.chdir(tmp)
    if "replay" in spec:
        c = spec["replay"]["case"]
        nbd.hygiene()
        merged, dec = nbd.merge_notebooks(to_node(c["base"]), to_node(c["local"]), to_node(c["remote"]), merge_args(c["config"]))
        judge(col, c["base"], c["local"], c["remote"], c["config"], c.get("class", "replay"), c.get("info"), merged, dec)
        return col.result()
    for k in range(spec["triples"]):
        gen = NBGen(r, exotic=(k % 5 == 0))
        cls = "minor_diff" if k % 9 == 0 else ("repeated_content" if k % 12 == 1 else None)
        cls, b, l, rm, info, waste = valid_triple(gen, cls=cls)
        if cls is None:
            continue
        cfgs = covering_configs(r, spec["cfgs"])
        cfgs[0] = {"merge": "mergetool", "input": None, "output": None, "ignore_transients": k % 2 == 0}
        for cfg in cfgs:
            col.eval()
            nbd.hygiene()
            # every sixth triple is handed over with shared sub-objects (same JSON documents, another object graph)
            node = to_node_shared if k % 6 == 1 else to_node
            try:
                merged, dec = nbd.merge_notebooks(node(b), node(l), node(rm), merge_args(cfg))
            except Exception:
                col.count("merge_raised(C03's business)")
                continue
            if node is to_node_shared:
                col.count("merges_of_documents_with_shared_subobjects")
            judge(col, b, l, rm, cfg, cls, info, merged, dec)
        if k % spec["file_every"] == 0:
            decisions_file(col, b, l, rm, next((c for c in cfgs if c["merge"] != "mergetool"), cfgs[-1]), cls, tmp, r)
    return col.result()
