"""python -m vmon.worker <prop-module> <spec.json> <out.json>: run one shard in this process."""
import importlib
import json
import os
import logging
import sys
import traceback
import warnings


def start_line_coverage(path):
    """VMON_COVERAGE=<file>: record which lines of the repository's nbdime package this shard executes (sys.monitoring
    LINE events, each location disabled after its first hit) - a map of what the workload reaches, written as JSON"""
    import atexit
    import os
    root = os.path.join(os.environ.get("VERIF_REPO", "/repo"), "nbdime") + os.sep
    mon = sys.monitoring
    tool = mon.COVERAGE_ID
    seen = set()
    try:
        mon.use_tool_id(tool, "vmon-coverage")
    except ValueError:
        return

    def on_line(code, line):
        fn = code.co_filename
        if fn.startswith(root) and os.sep + "tests" + os.sep not in fn:
            seen.add((fn[len(root):], line))
        return mon.DISABLE
    mon.register_callback(tool, mon.events.LINE, on_line)
    mon.set_events(tool, mon.events.LINE)

    def dump():
        with open(path, "w") as f:
            json.dump(sorted(seen), f)
    atexit.register(dump)


def main():
    modname, specfile, outfile = sys.argv[1:4]
    if os.environ.get("VMON_COVERAGE"):
        start_line_coverage(os.environ["VMON_COVERAGE"] + "." + os.path.basename(specfile))
    warnings.simplefilter("ignore")
    logging.getLogger("nbformat").setLevel(logging.CRITICAL)
    logging.getLogger("nbdime").setLevel(logging.CRITICAL)
    with open(specfile) as f:
        spec = json.load(f)
    try:
        mod = importlib.import_module("vmon.props." + modname)
        res = mod.run_shard(spec)
        if sys.flags.optimize:
            res.setdefault("counters", {})["evaluations_under_python_-O"] = res.get("evaluations", 0)
    except BaseException as e:   # harness failure: inconclusive, never a violation
        res = {"evaluations": 0, "nontrivial": [], "counters": {}, "monitors": {}, "samples": [],
               "violations": [], "violation_counts": {},
               "inconclusive": ["worker crashed: %s: %s\n%s" % (type(e).__name__, e, traceback.format_exc()[-1500:])]}
    with open(outfile, "w") as f:
        json.dump(res, f, default=repr)


if __name__ == "__main__":
    main()
