"""python -m vmon.worker <prop-module> <spec.json> <out.json>: run one shard in this process."""
import importlib
import json
import logging
import sys
import traceback
import warnings


def main():
    modname, specfile, outfile = sys.argv[1:4]
    warnings.simplefilter("ignore")
    logging.getLogger("nbformat").setLevel(logging.CRITICAL)
    logging.getLogger("nbdime").setLevel(logging.CRITICAL)
    with open(specfile) as f:
        spec = json.load(f)
    try:
        mod = importlib.import_module("vmon.props." + modname)
        res = mod.run_shard(spec)
        if sys.flags.optimize:
            res.setdefault("counters", {})["evaluations_under_python_-O"] = res.get("evaluations", 0)
    except BaseException as e:   # harness failure: inconclusive, never a violation
        res = {"evaluations": 0, "nontrivial": [], "counters": {}, "monitors": {}, "samples": [],
               "violations": [], "violation_counts": {},
               "inconclusive": ["worker crashed: %s: %s\n%s" % (type(e).__name__, e, traceback.format_exc()[-1500:])]}
    with open(outfile, "w") as f:
        json.dump(res, f, default=repr)


if __name__ == "__main__":
    main()
