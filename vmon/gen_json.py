"""G-JSON: exhaustive small-alphabet enumerators and a seeded recursive generator."""
import itertools

LIST_ALPHABET = [0, 1, True, 1.0, "a", None, [0], {"k": 0}]
STR_ALPHABET = ["a", "b", "\n", "\r", "\x0b", " "]
DICT_VALUES = [0, True, 1.0, "x", [0], [True], {"k": 1}, {"k": 1.0}]
SEPS = ["\n", "\r\n", "\r", "\x0b", "\x0c", "\x1c", "\x1d", "\x1e", "\x85", " ", " "]


def lists_upto(n, alphabet=LIST_ALPHABET):
    for k in range(n + 1):
        for t in itertools.product(alphabet, repeat=k):
            yield list(t)


def strings_upto(n, alphabet=STR_ALPHABET):
    for k in range(n + 1):
        for t in itertools.product(alphabet, repeat=k):
            yield "".join(t)


def dicts_over(keys=("a", "b"), values=DICT_VALUES):
    opts = [None] + list(range(len(values)))
    for choice in itertools.product(opts, repeat=len(keys)):
        yield {k: values[c] for k, c in zip(keys, choice) if c is not None}


def rand_value(r, depth=0, maxdepth=4):
    c = r.random()
    if depth >= maxdepth or c < 0.35:
        return rand_scalar(r)
    if c < 0.6:
        # member names: short ones, names that look like numbers or paths, names other languages' objects inherit
        pool = ["a", "b", "c", "d", "k"] + (["constructor", "toString", "valueOf", "hasOwnProperty", "2024", "0", "a/b", ""] if r.random() < 0.25 else [])
        return {k: rand_value(r, depth + 1, maxdepth) for k in r.sample(pool, r.randrange(0, 4))}
    if c < 0.9:
        n = r.randrange(0, 5)
        items = [rand_value(r, depth + 1, maxdepth) for _ in range(n)]
        if items and r.random() < 0.4:      # repeated elements
            import copy
            items.insert(r.randrange(len(items) + 1), copy.deepcopy(r.choice(items)))
        return items
    return rand_string(r)


def rand_scalar(r):
    return r.choice([0, 1, 2, -1, True, False, 1.0, 0.0, 2.5, None, "a", "b", "", "ab", 10 ** 9, 1e-9,
                     0.3, 0.1 + 0.2, 1e22, 2 ** 53, 2 ** 53 + 1])


def rand_string(r):
    if r.random() < 0.04:      # long text with many repeated lines
        n = r.choice([52, 70, 120])
        return "".join(r.choice(["", "", "aa", "....", "x = 1", "line %d" % r.randrange(5)]) + "\n" for _ in range(n))
    if r.random() < 0.06:      # a few LONG lines (prose, minified code): their inline character diffs have many entries
        words = ["alpha", "beta", "gamma", "delta", "x=1;", "foo(bar)", "lorem", "ipsum", "0123456789", "the", "quick"]
        return "".join(" ".join(r.choice(words) for _ in range(r.randrange(8, 16))) + "\n" for _ in range(r.randrange(1, 5)))
    n = r.randrange(0, 6)
    parts = []
    for _ in range(n):
        parts.append(r.choice(["a", "ab", "line %d" % r.randrange(4), "", "x y z", "αβ"]))
        parts.append(r.choice(SEPS) if r.random() < 0.85 else "")
    s = "".join(parts)
    if r.random() < 0.4:
        s = s.rstrip("".join(SEPS))
    return s


def rand_edit(r, v, depth=0):
    """A value of the same container type as v, related to it by a few edits."""
    import copy
    v = copy.deepcopy(v)
    if isinstance(v, dict):
        for _ in range(r.randrange(1, 3)):
            c = r.random()
            keys = sorted(v)
            if keys and c < 0.25:
                del v[r.choice(keys)]
            elif keys and c < 0.6:
                k = r.choice(keys)
                if isinstance(v[k], (dict, list, str)) and r.random() < 0.7:
                    v[k] = rand_edit(r, v[k], depth + 1)
                else:
                    v[k] = _type_twist(r, v[k])
            else:
                v[r.choice(["a", "b", "c", "d", "e"])] = rand_value(r, depth + 1)
        return v
    if isinstance(v, list):
        for _ in range(r.randrange(1, 3)):
            c = r.random()
            if v and c < 0.25:
                del v[r.randrange(len(v))]
            elif v and c < 0.55:
                k = r.randrange(len(v))
                if isinstance(v[k], (dict, list, str)) and r.random() < 0.7:
                    v[k] = rand_edit(r, v[k], depth + 1)
                else:
                    v[k] = _type_twist(r, v[k])
            elif v and c < 0.7:
                v.insert(r.randrange(len(v) + 1), copy.deepcopy(r.choice(v)))
            else:
                v.insert(r.randrange(len(v) + 1), rand_value(r, depth + 1))
        return v
    if isinstance(v, str):
        lines = v.splitlines(True)
        c = r.random()
        if len(lines) > 40 and c < 0.7:
            k = r.randrange(1, len(lines) - 1)
            if c < 0.35:
                lines.insert(k, lines[k])
            else:
                dup = [i for i in range(1, len(lines)) if lines[i] == lines[i - 1]]
                del lines[r.choice(dup) if dup else k]
            return "".join(lines)
        longs = [i for i, ln in enumerate(lines) if len(ln) >= 40]
        if longs and c < 0.75:
            # many scattered one-character edits in one long line (it still resembles its old self), and possibly new
            # lines directly above and/or below it
            k = r.choice(longs)
            step = r.choice([3, 4, 5, 7])
            ln = lines[k]
            body, end = ln.rstrip("\n"), ln[len(ln.rstrip("\n")):]
            chars = list(body)
            for i in range(r.randrange(step), len(chars), step):
                chars[i] = r.choice("XYZ_")
            lines[k] = "".join(chars) + end
            if r.random() < 0.6:
                lines[k:k] = ["inserted %d\n" % j for j in range(r.choice([1, 1, 2]))]
                k += 1
            if r.random() < 0.3:
                lines.insert(k + 1, "appended below\n")
            return "".join(lines)
        if not lines or c < 0.3:
            lines.insert(r.randrange(len(lines) + 1), "new" + r.choice(SEPS))
        elif c < 0.5:
            del lines[r.randrange(len(lines))]
        elif c < 0.8:
            k = r.randrange(len(lines))
            lines[k] = lines[k][:1] + "Z" + lines[k][1:]
        else:
            lines[-1] = lines[-1].rstrip("".join(SEPS)) if r.random() < 0.5 else lines[-1] + r.choice(SEPS)
        return "".join(lines)
    return _type_twist(r, v)


def _type_twist(r, x):
    if isinstance(x, bool):
        return r.choice([int(x), float(x), not x])
    if isinstance(x, int):
        return r.choice([float(x), x + 1, bool(x) if x in (0, 1) else x + 2])
    if isinstance(x, float):
        import math
        # also the NEXT representable double: equal to 15-16 significant digits, different as JSON text (repr round-trips)
        return r.choice([int(x) if x == int(x) else x + 1, x + 0.5, math.nextafter(x, math.inf), math.nextafter(x, -math.inf)])
    return rand_scalar(r)
