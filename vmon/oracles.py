"""Oracles shared by several properties.  Each returns a list of findings
(mechanism, clause, detail); an empty list means the oracle was silent."""
import json

from .canon import canon, seq, numnorm, to_plain, first_difference, NotPlainJSON
from .refdiff import ref_patch, wellformed, IllFormed

_DIFF_SCHEMA = None
_MERGE_SCHEMA = None


def numeric_only(expected, actual):
    """True iff the two differ type-strictly but are identical once bool/int/float are
    mapped to one numeric type (the narrow classifier `numeric-type-only`)."""
    try:
        return canon(expected) != canon(actual) and canon(numnorm(expected)) == canon(numnorm(actual))
    except NotPlainJSON:
        return False


def roundtrip_findings(a, b, d, patched, want_empty_iff_identical):
    """a, b: inputs; d: diff returned by nbdime; patched: nbdime's patch(a, d).
    Judges: nbdime patch == b; reference patch == b (diff uses only documented ops
    with documented meaning); emptiness."""
    out = []
    pa, pb = to_plain(a), to_plain(b)
    try:
        pd = to_plain(d)
    except NotPlainJSON as e:
        return [("diff-not-plain-json", "format", str(e))]
    identical = canon(pa) == canon(pb)
    if not seq(patched, pb):
        mech = "numeric-type-only" if numeric_only(pb, patched) else "patch-result-differs"
        out.append((mech, "nbdime-patch", first_difference(patched, pb)))
    try:
        rp = ref_patch(pa, pd)
    except IllFormed as e:
        out.append(("illformed:" + e.problems[0][0], "reference-patch", "%s at %s" % e.problems[0]))
        rp = None
    if rp is not None and not seq(rp, pb):
        mech = "numeric-type-only" if numeric_only(pb, rp) else "reference-patch-differs"
        out.append((mech, "reference-patch", first_difference(rp, pb)))
    if len(pd) == 0 and not identical:
        mech = "numeric-type-only" if numeric_only(pa, pb) else "empty-diff-for-different-documents"
        out.append((mech, "emptiness", first_difference(pa, pb)))
    if want_empty_iff_identical and identical and len(pd) != 0:
        out.append(("nonempty-diff-for-identical-documents", "emptiness", json.dumps(pd)[:200]))
    # de-duplicate mechanisms (one root cause shows in several clauses)
    seen, uniq = set(), []
    for f in out:
        if f[0] not in seen:
            seen.add(f[0])
            uniq.append(f)
    return uniq


def diff_schema():
    global _DIFF_SCHEMA
    if _DIFF_SCHEMA is None:
        import os
        import jsonschema
        from . import env
        with open(os.path.join(env.REPO, "nbdime", "diff_format.schema.json")) as f:
            schema = json.load(f)
        _DIFF_SCHEMA = jsonschema.Draft4Validator(schema)
    return _DIFF_SCHEMA


def merge_schema():
    """merge_format.schema.json with diff_format.schema.json as the $ref target, the way
    the repository's own conftest wires them."""
    global _MERGE_SCHEMA
    if _MERGE_SCHEMA is None:
        import os
        import warnings
        import jsonschema
        from . import env
        d = os.path.join(env.REPO, "nbdime")
        with open(os.path.join(d, "merge_format.schema.json")) as f:
            schema = json.load(f)
        with open(os.path.join(d, "diff_format.schema.json")) as f:
            dschema = json.load(f)
        with warnings.catch_warnings():
            warnings.simplefilter("ignore")
            resolver = jsonschema.RefResolver("file://%s/" % d, schema,
                                              store={"diff_format.schema.json": dschema,
                                                     "file://%s/diff_format.schema.json" % d: dschema})
            _MERGE_SCHEMA = jsonschema.Draft4Validator(schema, resolver=resolver)
    return _MERGE_SCHEMA


def json_roundtrip_strict(x):
    """json.loads(json.dumps(x)) is type-strictly equal to x"""
    try:
        return canon(json.loads(json.dumps(x))) == canon(x)
    except (TypeError, ValueError, NotPlainJSON):
        return False
