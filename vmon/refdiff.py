"""Reference patcher + structural well-formedness checker.

Written from docs/source/diffing.rst (and the docstring of
flatten_list_of_string_diff for strings), *not* from nbdime/patching.py:

* mapping ops: add (key absent), remove / replace / patch (key present);
* sequence ops: keys are indices into the ORIGINAL sequence A;
  removerange deletes A[key:key+length]; addrange inserts before A[key]
  (at end if key == len(A)); patch patches A[key];
* a string is a sequence of lines (str.splitlines(True)); a patch of a line is a
  sequence diff over the characters of that line.

Anything the documented format gives no meaning to is a Problem: unsorted keys,
overlapping ranges, out-of-bounds, zero length, duplicate keys, add of a present
key, remove/replace/patch of an absent key, patch of a scalar, empty sub-diff,
unknown op, stray fields.  `ref_patch` raises on the first problem; `wellformed`
returns all of them (C11).  Never imports nbdime.
"""

CONTAINER = (dict, list, str)

_FIELDS = {
    "add": {"op", "key", "value"},
    "remove": {"op", "key"},
    "replace": {"op", "key", "value"},
    "patch": {"op", "key", "diff"},
    "addrange": {"op", "key", "valuelist"},
    "removerange": {"op", "key", "length"},
}


class IllFormed(Exception):
    def __init__(self, problems):
        Exception.__init__(self, "; ".join("%s@%s" % p for p in problems[:5]))
        self.problems = problems


class _Ctx:
    def __init__(self, strict):
        self.problems = []
        self.strict = strict
        self.ops = {}      # (container kind, op) -> count
        self.maxdepth = 0

    def bad(self, code, path):
        self.problems.append((code, path))
        if self.strict:
            raise IllFormed(self.problems)


def _isint(x):
    return isinstance(x, int) and not isinstance(x, bool)


def _entry_ok(ctx, e, path):
    if not isinstance(e, dict):
        ctx.bad("entry-not-object", path)
        return False
    op = e.get("op")
    if op not in _FIELDS:
        ctx.bad("unknown-op:%r" % (op,), path)
        return False
    if set(e.keys()) != _FIELDS[op]:
        ctx.bad("fields:%s:%s" % (op, ",".join(sorted(set(e.keys()) ^ _FIELDS[op]))), path)
        return False
    return True


def _apply(ctx, base, diff, path, depth, chars=False):
    ctx.maxdepth = max(ctx.maxdepth, depth)
    if not isinstance(diff, list):
        ctx.bad("diff-not-list", path)
        return base
    if isinstance(base, dict):
        return _apply_dict(ctx, base, diff, path, depth)
    if isinstance(base, list):
        return _apply_seq(ctx, base, diff, path, depth, "list")
    if isinstance(base, str):
        if chars:
            res = _apply_seq(ctx, list(base), diff, path, depth, "chars")
            return "".join(res)
        lines = base.splitlines(True)
        res = _apply_seq(ctx, lines, diff, path, depth, "lines")
        return "".join(res)
    ctx.bad("patch-of-scalar", path)
    return base


def _apply_dict(ctx, base, diff, path, depth):
    seen = set()
    removed = set()
    new = {}
    for e in diff:
        if not _entry_ok(ctx, e, path):
            continue
        op, key = e["op"], e["key"]
        p = "%s/%s" % (path, key)
        ctx.ops[("dict", op)] = ctx.ops.get(("dict", op), 0) + 1
        if not isinstance(key, str):
            ctx.bad("dict-key-not-string", p)
            continue
        if op in ("addrange", "removerange"):
            ctx.bad("sequence-op-on-dict:%s" % op, p)
            continue
        if key in seen:
            ctx.bad("key-targeted-twice", p)
            continue
        seen.add(key)
        if op == "add":
            if key in base:
                ctx.bad("add-of-present-key", p)
            new[key] = e["value"]
        elif op == "remove":
            if key not in base:
                ctx.bad("remove-of-absent-key", p)
            removed.add(key)
        elif op == "replace":
            if key not in base:
                ctx.bad("replace-of-absent-key", p)
            new[key] = e["value"]
        elif op == "patch":
            if key not in base:
                ctx.bad("patch-of-absent-key", p)
                continue
            if not isinstance(base[key], CONTAINER):
                ctx.bad("patch-of-scalar", p)
                continue
            if not e["diff"]:
                ctx.bad("empty-patch", p)
            new[key] = _apply(ctx, base[key], e["diff"], p, depth + 1)
    out = {}
    for k, v in base.items():
        if k in removed:
            continue
        out[k] = new.pop(k) if k in new else v
    out.update(new)
    return out


def _apply_seq(ctx, items, diff, path, depth, kind):
    n = len(items)
    out = []
    pos = 0          # next original index not yet consumed
    last_key = None
    add_keys = set()
    for e in diff:
        if not _entry_ok(ctx, e, path):
            continue
        op, key = e["op"], e["key"]
        p = "%s/%s" % (path, key)
        ctx.ops[(kind, op)] = ctx.ops.get((kind, op), 0) + 1
        if not _isint(key):
            ctx.bad("sequence-key-not-int", p)
            continue
        if op in ("add", "remove", "replace"):
            ctx.bad("mapping-op-on-sequence:%s" % op, p)
            continue
        if last_key is not None and key < last_key:
            ctx.bad("unsorted", p)
        last_key = key if last_key is None else max(last_key, key)
        if op == "addrange":
            vl = e["valuelist"]
            if kind == "chars":
                if isinstance(vl, list) and all(isinstance(c, str) for c in vl):
                    vl = "".join(vl)
                if not isinstance(vl, str):
                    ctx.bad("char-addrange-not-string", p)
                    continue
            else:
                if not isinstance(vl, list):
                    ctx.bad("addrange-valuelist-not-list", p)
                    continue
                if kind == "lines" and not all(isinstance(c, str) for c in vl):
                    ctx.bad("line-addrange-not-strings", p)
                    continue
            if len(vl) == 0:
                ctx.bad("empty-addrange", p)
            if key < 0 or key > n:
                ctx.bad("addrange-out-of-bounds", p)
                continue
            if key in add_keys:
                # not forbidden by the property as stated (ordered, no overlap, in bounds): observation only
                ctx.ops[(kind, "second-addrange-on-one-key")] = ctx.ops.get((kind, "second-addrange-on-one-key"), 0) + 1
            add_keys.add(key)
            if key < pos:
                # after a removerange/patch that already consumed A[key]
                ctx.bad("addrange-after-consumer-or-inside-range", p)
            else:
                out.extend(items[pos:key])
                pos = key
            out.extend(vl)
        elif op == "removerange":
            ln = e["length"]
            if not _isint(ln) or ln < 1:
                ctx.bad("removerange-bad-length", p)
                continue
            if key < 0 or key + ln > n:
                ctx.bad("removerange-out-of-bounds", p)
                continue
            if key < pos:
                ctx.bad("overlap", p)
                continue
            out.extend(items[pos:key])
            pos = key + ln
        elif op == "patch":
            if key < 0 or key >= n:
                ctx.bad("patch-out-of-bounds", p)
                continue
            if key < pos:
                ctx.bad("overlap", p)
                continue
            if kind == "chars" or not isinstance(items[key], CONTAINER):
                ctx.bad("patch-of-scalar", p)
                continue
            if not e["diff"]:
                ctx.bad("empty-patch", p)
            out.extend(items[pos:key])
            out.append(_apply(ctx, items[key], e["diff"], p, depth + 1, chars=(kind == "lines")))
            pos = key + 1
    out.extend(items[pos:])
    return out


def ref_patch(base, diff, chars=False):
    """Apply `diff` to `base` per the documented format; raise IllFormed otherwise.
    Inputs must be plain JSON (use canon.to_plain first). Never mutates inputs
    (but the result may share sub-objects with them; callers compare canonically)."""
    ctx = _Ctx(strict=True)
    return _apply(ctx, base, diff, "", 0, chars=chars)


def wellformed(base, diff, chars=False):
    """Return (problems, stats). problems == [] iff well-formed."""
    ctx = _Ctx(strict=False)
    try:
        _apply(ctx, base, diff, "", 0, chars=chars)
    except Exception as exc:  # a malformed entry deep down (missing field etc.)
        ctx.problems.append(("checker-exception:%s" % type(exc).__name__, str(exc)[:100]))
    return ctx.problems, {"ops": ctx.ops, "depth": ctx.maxdepth}


def count_leaf_ops(diff):
    n = 0
    for e in diff or ():
        if isinstance(e, dict) and e.get("op") == "patch":
            n += count_leaf_ops(e.get("diff"))
        else:
            n += 1
    return n


def diff_depth(diff):
    d = 0
    for e in diff or ():
        if isinstance(e, dict) and e.get("op") == "patch":
            d = max(d, 1 + diff_depth(e.get("diff")))
        else:
            d = max(d, 1)
    return d
