"""Access to the real nbdime in a worker: imports, pristine-state snapshot, state hygiene,
global-state observation (M-STATE)."""
import copy
import logging
import os

import nbdime
import nbdime.diffing.notebooks as dn
import nbdime.merging.generic as mg
dn = dn
from nbdime import diff, diff_notebooks, patch, patch_notebook, merge_notebooks, decide_merge, apply_decisions
from nbdime.diff_utils import to_diffentry_dicts
from nbdime.merging.notebooks import decide_notebook_merge

logging.getLogger("nbdime").setLevel(logging.CRITICAL)
logging.getLogger("nbformat").setLevel(logging.CRITICAL)



def quiet_logging():
    """nbdime's argument parsers call logging.basicConfig and set levels; put the loggers back
    to silent (log output is recorded nowhere and judged nowhere)."""
    logging.getLogger().setLevel(logging.CRITICAL + 10)
    logging.getLogger("nbdime").setLevel(logging.CRITICAL + 10)
    logging.getLogger("nbformat").setLevel(logging.CRITICAL + 10)
    logging.captureWarnings(False)


_PRISTINE_PRED = dict(dn.notebook_predicates)
_PRISTINE_DIFF = dict(dn.notebook_differs)
_PRISTINE_CWD = os.getcwd()


def recursion_flag():
    """the re-entrancy flag of the string merger, if this tree keeps it where the pinned tree does (a private
    attribute: its absence is not a violation, the watcher simply has nothing to watch)"""
    return bool(getattr(mg._merge_strings, "recursion", False))


def state_snapshot():
    return {
        "predicates": sorted(dn.notebook_predicates.keys()),
        "differs": sorted(dn.notebook_differs.keys()),
        "differ_names": {k: getattr(v, "__name__", repr(v)) for k, v in sorted(dn.notebook_differs.items())},
        "recursion": recursion_flag(),
        "cwd": os.getcwd(),
    }


def state_dirty():
    return (set(dn.notebook_predicates.keys()) != set(_PRISTINE_PRED.keys())
            or dict(dn.notebook_differs) != _PRISTINE_DIFF
            or recursion_flag())


def hygiene():
    """Restore the differ's process-global tables to the import-time state, clear the lru
    caches and the recursion flag.  Returns True if there was something to undo.
    Used before each case by every property except C12/C20-history (DESIGN 3.4)."""
    dirty = state_dirty()
    if dirty:
        for k in list(dn.notebook_predicates.keys()):
            del dn.notebook_predicates[k]
        dn.notebook_predicates.update(_PRISTINE_PRED)
        for k in list(dn.notebook_differs.keys()):
            del dn.notebook_differs[k]
        dn.notebook_differs.update(_PRISTINE_DIFF)
        if hasattr(mg._merge_strings, "recursion"):
            mg._merge_strings.recursion = False
    for f in (getattr(dn, "compare_text_approximate", None), getattr(dn, "_compare_mimedata_strings", None)):
        if hasattr(f, "cache_clear"):
            f.cache_clear()
    return dirty


def innermost_nbdime_frame(exc):
    """module:function[source line] of the innermost frame inside the nbdime package (M-NOEXC key).
    The statement text makes two different failures inside one function two different mechanisms."""
    import linecache
    tb = exc.__traceback__
    best = None
    while tb is not None:
        fn = tb.tb_frame.f_code.co_filename
        if os.sep + "nbdime" + os.sep in fn and os.sep + "vmon" + os.sep not in fn:
            mod = fn.split(os.sep + "nbdime" + os.sep, 1)[1].replace(os.sep, ".")
            if mod.endswith(".py"):
                mod = mod[:-3]
            line = " ".join(linecache.getline(fn, tb.tb_lineno).split())[:60]
            best = "%s:%s[%s]" % (mod, tb.tb_frame.f_code.co_name, line)
        tb = tb.tb_next
    return best or "outside-nbdime"


def exc_key(exc):
    import re
    msg = str(exc)
    # message template: drop quoted/numeric specifics
    tmpl = re.sub(r"'[^']*'|\"[^\"]*\"|\d+", "#", msg)[:60]
    return "%s@%s" % (type(exc).__name__, innermost_nbdime_frame(exc)), tmpl


def count_calls(col, funcs, prefix="reached:"):
    """sys.monitoring PY_START counters on the given functions (counting mode only): evidence of which
    heuristic branches / arms a workload actually reached.  funcs: {label: function}"""
    import sys
    mon = sys.monitoring
    tool = mon.PROFILER_ID
    try:
        mon.use_tool_id(tool, "vmon-count")
    except ValueError:
        return False
    codes = {f.__code__: label for label, f in funcs.items()}

    def on_start(code, offset):
        label = codes.get(code)
        if label is None:
            return mon.DISABLE
        col.count(prefix + label)
    mon.register_callback(tool, mon.events.PY_START, on_start)
    for code in codes:
        mon.set_local_events(tool, code, mon.events.PY_START)
    return True


def call_in_thread(fn, *a, **kw):
    """run fn in a fresh non-main thread (a server's worker thread, a notebook extension's executor) and hand back
    its result or re-raise its exception here; the library was imported by the main thread"""
    import threading
    box = {}

    def target():
        try:
            box["value"] = fn(*a, **kw)
        except BaseException as e:       # re-raised in the caller
            box["error"] = e
    t = threading.Thread(target=target, name="vmon-caller-thread")
    t.start()
    t.join()
    if "error" in box:
        raise box["error"]
    return box["value"]
