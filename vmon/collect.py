"""Worker-side result collector (counters, distinct non-trivial cases, samples, violations)."""
import json
import time


class Collector:
    MAX_SAMPLES = 4
    MAX_VIOL_PER_MECH = 3

    def __init__(self, prop):
        self.prop = prop
        self.evaluations = 0
        self.nontrivial = set()
        self.nt_by_construction = 0
        self.counters = {}
        self.monitors = {}
        self.samples = []
        self.violations = []
        self._vcount = {}
        self.inconclusive = []
        self.t0 = time.time()

    def eval(self, n=1):
        self.evaluations += n

    def nt(self, h):
        self.nontrivial.add(h)

    def nt_enum(self, n=1):
        """non-trivial cases that are distinct by construction (exhaustive enumeration
        without repeats, disjoint across shards): counted, not hashed"""
        self.nt_by_construction += n

    def count(self, name, n=1):
        self.counters[name] = self.counters.get(name, 0) + n

    def mon(self, name, n=1):
        """a deciding monitor/oracle ran n times (zero at the end => inconclusive)"""
        self.monitors[name] = self.monitors.get(name, 0) + n

    def sample(self, obj):
        if len(self.samples) < self.MAX_SAMPLES:
            self.samples.append(_shrink(obj))

    def violation(self, mechanism, detail, case, clause=None):
        """mechanism: classifier id (known-finding key).  case: JSON-able replay payload."""
        k = mechanism
        self._vcount[k] = self._vcount.get(k, 0) + 1
        self.count("violation:" + mechanism)
        if self._vcount[k] <= self.MAX_VIOL_PER_MECH:
            self.violations.append({"property": self.prop, "mechanism": mechanism, "clause": clause,
                                    "detail": str(detail)[:600], "case": case})

    def inconc(self, reason):
        if len(self.inconclusive) < 20:
            self.inconclusive.append(reason)

    def result(self):
        return {"evaluations": self.evaluations, "nontrivial": sorted(self.nontrivial),
                "nt_by_construction": self.nt_by_construction, "counters": self.counters, "monitors": self.monitors, "samples": self.samples,
                "violations": self.violations, "violation_counts": self._vcount,
                "inconclusive": self.inconclusive, "wall_s": time.time() - self.t0}


def _shrink(obj, limit=1500):
    s = json.dumps(obj, default=repr)
    if len(s) <= limit:
        return json.loads(s)
    return {"truncated": s[:limit]}
