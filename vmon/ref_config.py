"""Executable reading of docs/source/config.rst (C19).  Never imports nbdime.config.

effective(option) = flag if given
                    else value in the most specific section that sets it, sections ordered
                         own > git-specific (GitDiff/GitMerge) > Diff/Merge > WebTool > Web > Global,
                         each section's content taken from the merged files (cwd > user > system,
                         per section and option the higher-priority file wins; Ignore merged per path)
                    else built-in default.
'Ignore' mappings of several sections are merged path by path, most specific section winning per path.
"""
import copy

# entry point -> (own section, ordered list of less specific sections) as listed in the docs
SECTIONS = {
    "nbdiff": ["NbDiff", "GitDiff", "Diff", "Global"],
    "nbdiff-web": ["NbDiffWeb", "GitDiff", "Diff", "Web", "Global"],
    "nbmerge": ["NbMerge", "Merge", "Global"],
    "nbmerge-web": ["NbMergeWeb", "Merge", "Web", "Global"],
    "nbshow": ["NbShow", "Global"],
    "server": ["Server", "Web", "Global"],
    "extension": ["Extension", "GitDiff", "Diff", "Global"],
    "git-nbdiffdriver": ["NbDiffDriver", "GitDiff", "Diff", "Global"],
    "git-nbdifftool": ["NbDiffTool", "GitDiff", "Diff", "WebTool", "Web", "Global"],
    "git-nbmergedriver": ["NbMergeDriver", "GitMerge", "Merge", "Global"],
    "git-nbmergetool": ["NbMergeTool", "GitMerge", "Merge", "WebTool", "Web", "Global"],
}

IGNORABLES = ["sources", "outputs", "attachments", "metadata", "id", "details"]
DIFF_OPTS = IGNORABLES + ["color_words", "Ignore"]
# the git-facing diff sections add the counterpart of --use-filter (class GitDiff in nbdime/config.py)
GITDIFF_OPTS = DIFF_OPTS + ["use_filter"]
MERGE_OPTS = DIFF_OPTS + ["merge_strategy", "input_strategy", "output_strategy", "ignore_transients"]
WEB_OPTS = ["port", "ip", "base_url", "browser", "persist", "workdirectory"]
SHOW_OPTS = IGNORABLES + ["Ignore"]

# options each section may carry
SECTION_OPTS = {
    "Global": ["log_level"],
    "Web": WEB_OPTS, "WebTool": WEB_OPTS,
    "Diff": DIFF_OPTS, "GitDiff": GITDIFF_OPTS, "Merge": MERGE_OPTS, "GitMerge": MERGE_OPTS,
    "NbDiff": GITDIFF_OPTS, "NbDiffDriver": GITDIFF_OPTS, "Extension": GITDIFF_OPTS,
    "NbDiffWeb": GITDIFF_OPTS + WEB_OPTS, "NbDiffTool": GITDIFF_OPTS + WEB_OPTS,
    "NbMerge": MERGE_OPTS, "NbMergeDriver": MERGE_OPTS,
    "NbMergeWeb": MERGE_OPTS + WEB_OPTS + ["show_base"], "NbMergeTool": MERGE_OPTS + WEB_OPTS,
    "NbShow": SHOW_OPTS, "Server": WEB_OPTS,
}

DEFAULTS = {
    "log_level": "INFO", "port": 0, "ip": "127.0.0.1", "base_url": "/", "browser": None, "persist": False,
    "workdirectory": "<cwd>", "color_words": False, "merge_strategy": "inline", "input_strategy": None,
    "output_strategy": None, "ignore_transients": True, "show_base": True, "Ignore": {}, "use_filter": False,
    "sources": None, "outputs": None, "attachments": None, "metadata": None, "id": None, "details": None,
}
ENTRY_DEFAULT_OVERRIDES = {"server": {"port": 8888}}

DOMAINS = {
    "log_level": ["DEBUG", "INFO", "WARN", "ERROR", "CRITICAL"],
    "port": [0, 8888, 9000, 9001, 12345], "ip": ["127.0.0.1", "0.0.0.0", "localhost"], "base_url": ["/", "/nb/", "/x/y/"],
    "browser": ["firefox", "chrome"], "persist": [True, False], "workdirectory": ["/tmp", "/"],
    "color_words": [True, False], "merge_strategy": ["inline", "use-base", "use-local", "use-remote"],
    "input_strategy": ["inline", "use-base", "use-local", "use-remote"],
    "output_strategy": ["inline", "use-base", "use-local", "use-remote", "remove", "clear-all"],
    "ignore_transients": [True, False], "show_base": [True, False], "use_filter": [True, False],
    "sources": [True, False], "outputs": [True, False], "attachments": [True, False], "metadata": [True, False],
    "id": [True, False], "details": [True, False],
}
IGNORE_PATHS = ["/cells/*/outputs", "/cells/*/metadata", "/metadata", "/cells/*/attachments", "/cells/*",
                # paths are opaque keys of the mapping: dashes, dots, pluses, underscores, spaces are all legal in them
                "/cells/*/metadata/nbsphinx-toctree", "/metadata/widgets/application/vnd.jupyter.widget-state+json",
                "/metadata/language_info", "/cells/*/metadata/my key", "/metadata/color-words", "/metadata/Ignore"]
IGNORE_VALUES = [True, False, ["collapsed", "tags"], ["execution_count"], ["nbsphinx-toctree", "a_b"]]


def options_of(entry):
    return SECTION_OPTS[SECTIONS[entry][0]] + (["log_level"] if "log_level" not in SECTION_OPTS[SECTIONS[entry][0]] else [])


def merge_files(files):
    """files: list of config dicts in DESCENDING priority (cwd, user, system).
    Returns {section: {option: value}}; Ignore mappings merged per path."""
    out = {}
    for cfg in reversed(files):                      # lowest priority first, higher overwrites
        for sec, opts in cfg.items():
            tgt = out.setdefault(sec, {})
            for k, v in opts.items():
                if k == "Ignore":
                    tgt.setdefault("Ignore", {}).update(copy.deepcopy(v))
                else:
                    tgt[k] = v
    return out


def effective(entry, files, flags=None):
    """{option: value} for every option of the entry point"""
    merged = merge_files(files)
    flags = flags or {}
    res = {}
    for opt in options_of(entry):
        if opt in flags:
            res[opt] = flags[opt]
            continue
        if opt == "Ignore":
            ig = {}
            for sec in reversed(SECTIONS[entry]):    # least specific first
                if opt in SECTION_OPTS.get(sec, []) and "Ignore" in merged.get(sec, {}):
                    ig.update(copy.deepcopy(merged[sec]["Ignore"]))
            res[opt] = ig
            continue
        val = ENTRY_DEFAULT_OVERRIDES.get(entry, {}).get(opt, DEFAULTS[opt])
        for sec in SECTIONS[entry]:                  # most specific first
            if opt in SECTION_OPTS.get(sec, []) and opt in merged.get(sec, {}):
                val = merged[sec][opt]
                break
        res[opt] = val
    return res


def deciding_section(entry, files, opt):
    merged = merge_files(files)
    for sec in SECTIONS[entry]:
        if opt in SECTION_OPTS.get(sec, []) and opt in merged.get(sec, {}):
            return sec
    return None
