"""Shared seeded workloads: notebook pairs (C01, C11, C13, C14, C15, C16) and
merge triples (C03-C10, C13, C15, C16).  Everything is plain dicts in normal form;
callers convert with gen_nb.to_node before handing to nbdime."""
import copy
import random

from .gen_nb import NBGen, validate_nb, fixture_notebooks, EXOTIC_SEPS, b64, CODE_LINES
from .gen_edit import mutate, mutate_once, edit_text
from . import env

_FIX = None


def fixtures():
    global _FIX
    if _FIX is None:
        _FIX = fixture_notebooks(env.REPO)
    return _FIX


PAIR_CLASSES = ["related", "related", "related", "related", "unrelated", "fixture_mut", "sim_straddle",
                "short_sources", "base64", "pointer_only", "mime_keys", "output_kinds", "attachments",
                "meta_types", "separators", "move_dup", "identical", "minor_change", "line_endings"]


def _code_cell(gen, minor, source, outputs=None):
    c = gen.cell(minor, "code")
    c["source"] = source
    if outputs is not None:
        c["outputs"] = outputs
    return c


def nb_pair(gen, cls=None, minor=None):
    """One (class, A, B, record) case.  A and B are schema-valid (caller may re-check)."""
    r = gen.rng
    cls = cls or r.choice(PAIR_CLASSES)
    if cls == "unrelated":
        return cls, gen.notebook(minor), gen.notebook(minor), ["unrelated"]
    if cls == "fixture_mut":
        fx = fixtures()
        if fx:
            name, a = r.choice(fx)
            a = copy.deepcopy(a)
            if r.random() < 0.3:
                name2, b = r.choice(fx)
                return cls, a, copy.deepcopy(b), ["fixture pair %s %s" % (name, name2)]
            b, rec = mutate(a, gen, allow_minor=False)
            return cls, a, b, ["fixture %s" % name] + rec
        cls = "related"
    a = gen.notebook(minor, ncells=r.choice([1, 2, 3, 4, 5, 6, 8]))
    m = a["nbformat_minor"]
    if cls == "identical":
        return cls, a, copy.deepcopy(a), ["identical"]
    if cls == "related":
        b, rec = mutate(a, gen)
        return cls, a, b, rec
    if cls == "minor_change":
        b, rec = mutate(a, gen, allow_minor=True, steps=r.choice([1, 2, 3]))
        from .gen_edit import change_minor
        rec.append(change_minor(b, gen))
        return cls, a, b, rec
    b = copy.deepcopy(a)
    rec = [cls]
    if cls == "sim_straddle":
        # a long source; change a controlled fraction of its characters so the ratio sits
        # around the 0.7 / 0.95 thresholds
        lines = [gen.line(CODE_LINES) for _ in range(r.choice([4, 8, 12]))]
        src = "\n".join(lines) + "\n"
        a["cells"].insert(0, _code_cell(gen, m, src, []))
        b = copy.deepcopy(a)
        frac = r.choice([0.03, 0.05, 0.08, 0.2, 0.28, 0.32, 0.4])
        chars = list(src)
        for k in r.sample(range(len(chars)), max(1, int(len(chars) * frac))):
            if chars[k] != "\n":
                chars[k] = r.choice("QWZ#")
        b["cells"][0]["source"] = "".join(chars)
        if r.random() < 0.5:   # and something else moves around it
            b, rec2 = mutate(b, gen, steps=1)
            rec += rec2
        rec.append("frac=%s" % frac)
    elif cls == "short_sources":
        for nb in (a, b):
            nb["cells"] = nb["cells"][:2]
        shorts = ["x", "y", "1", "a=1", "b=2", "ok", "", "z\n"]
        for _ in range(r.randrange(2, 6)):
            c = _code_cell(gen, m, r.choice(shorts), [])
            a["cells"].append(c)
        b = copy.deepcopy(a)
        for c in b["cells"]:
            if r.random() < 0.5:
                c["source"] = r.choice(shorts)
        if r.random() < 0.5 and b["cells"]:
            b["cells"].insert(r.randrange(len(b["cells"]) + 1), _code_cell(gen, m, r.choice(shorts), []))
    elif cls == "base64":
        n = r.choice([12, 30, 45, 47, 48, 49, 60, 90, 300])
        o = {"output_type": "display_data", "metadata": {}, "data": {"image/png": b64(r, n), "text/plain": "<Figure>"}}
        a["cells"].insert(0, _code_cell(gen, m, "plot()", [o]))
        b = copy.deepcopy(a)
        v = b["cells"][0]["outputs"][0]["data"]
        cc = r.random()
        if cc < 0.5:
            v["image/png"] = b64(r, r.choice([n, n, 30, 90]))
        elif cc < 0.7:
            v["image/png"] = v["image/png"][:-4] + "AAAA"
        else:
            v["image/png"] = v["image/png"] + "\n"
        rec.append("n=%d" % n)
    elif cls == "pointer_only":
        o = {"output_type": "execute_result", "execution_count": 1, "metadata": {},
             "data": {"text/plain": "<matplotlib.lines.Line2D at 0x7f%06xa0>" % r.randrange(16 ** 6)}}
        a["cells"].insert(0, _code_cell(gen, m, "plt.plot(x)", [o]))
        b = copy.deepcopy(a)
        b["cells"][0]["outputs"][0]["data"]["text/plain"] = "<matplotlib.lines.Line2D at 0x7f%06xa0>" % r.randrange(16 ** 6)
    elif cls == "mime_keys":
        o = gen.output("display_data")
        a["cells"].insert(0, _code_cell(gen, m, "display(x)", [o]))
        b = copy.deepcopy(a)
        d = b["cells"][0]["outputs"][0]["data"]
        extra = gen.mimebundle()
        for k in list(d):
            if r.random() < 0.4:
                del d[k]
        d.update(extra)
    elif cls == "output_kinds":
        kinds = ["stream", "error", "display_data", "execute_result"]
        a["cells"].insert(0, _code_cell(gen, m, "run()", [gen.output(r.choice(kinds)) for _ in range(r.randrange(1, 4))]))
        b = copy.deepcopy(a)
        outs = b["cells"][0]["outputs"]
        for k in range(len(outs)):
            if r.random() < 0.6:
                outs[k] = gen.output(r.choice(kinds))
    elif cls == "attachments":
        c = gen.cell(m, "markdown")
        c["attachments"] = {"a.png": gen.mimebundle(True)}
        a["cells"].insert(0, c)
        b = copy.deepcopy(a)
        for _ in range(r.randrange(1, 3)):
            rec.append(mutate_once(b, gen, "attachments") or "noop")
    elif cls == "meta_types":
        tgt = r.choice(["nb", "cell"]) if a["cells"] else "nb"
        md = a["metadata"] if tgt == "nb" else a["cells"][0]["metadata"]
        md["t1"] = r.choice([1, True, 1.0, 0, False, 0.0])
        md["t2"] = {"deep": [r.choice([1, True, 1.0])], "k": r.choice([0, False])}
        md["t3"] = [1, True, 1.0]
        b = copy.deepcopy(a)
        mdb = b["metadata"] if tgt == "nb" else b["cells"][0]["metadata"]
        mdb["t1"] = r.choice([1, True, 1.0, 0, False, 0.0])
        mdb["t2"]["deep"][0] = r.choice([1, True, 1.0])
        mdb["t2"]["k"] = r.choice([0, False, 0.0])
        r.shuffle(mdb["t3"])
    elif cls == "separators":
        sep = r.choice(EXOTIC_SEPS)
        src = "a = 1" + sep + "b = 2\n" + "c = 3" + r.choice(EXOTIC_SEPS) + "\nd = 4"
        o = {"output_type": "stream", "name": "stdout", "text": "one" + sep + "two\nthree" + sep}
        o2 = {"output_type": "display_data", "metadata": {}, "data": {"text/plain": "p" + sep + "q" + sep + "r", "text/html": "<b>" + sep + "</b>\n"}}
        a["cells"].insert(0, _code_cell(gen, m, src, [o, o2]))
        b = copy.deepcopy(a)
        c = b["cells"][0]
        c["source"] = edit_text(c["source"], gen, CODE_LINES)
        c["outputs"][0]["text"] = c["outputs"][0]["text"].replace("two", "TWO" + r.choice(EXOTIC_SEPS))
        c["outputs"][1]["data"]["text/plain"] = "p" + sep + "Q" + r.choice(EXOTIC_SEPS) + "r"
    elif cls == "move_dup":
        b, rec = mutate(a, gen, steps=r.choice([1, 2, 3]), ops=["move", "insert_dup", "move", "delete"])
    elif cls == "line_endings":
        b, rec = mutate(a, gen, steps=r.choice([1, 2]), ops=["line_endings", "append_line", "edit_source"])
    return cls, a, b, rec


def valid_pair(gen, cls=None, minor=None, tries=5):
    """nb_pair whose two notebooks pass the pure-jsonschema self-check; returns
    (cls, A, B, rec, waste) where waste counts discarded invalid generations."""
    waste = 0
    for _ in range(tries):
        cls2, a, b, rec = nb_pair(gen, cls, minor)
        if not validate_nb(a) and not validate_nb(b):
            return cls2, a, b, rec, waste
        waste += 1
    return None, None, None, None, waste
