"""Shared seeded workloads: notebook pairs (C01, C11, C13, C14, C15, C16) and
merge triples (C03-C10, C13, C15, C16).  Everything is plain dicts in normal form;
callers convert with gen_nb.to_node before handing to nbdime."""
import copy
import random

from .gen_nb import NBGen, validate_nb, fixture_notebooks, EXOTIC_SEPS, b64, CODE_LINES, OUT_LINES, MD_LINES
from .gen_edit import mutate, mutate_once, edit_text
from . import env

_FIX = None


def fixtures():
    global _FIX
    if _FIX is None:
        _FIX = fixture_notebooks(env.REPO)
    return _FIX


PAIR_CLASSES = ["related", "related", "related", "related", "unrelated", "fixture_mut", "sim_straddle",
                "short_sources", "base64", "pointer_only", "mime_keys", "output_kinds", "attachments",
                "meta_types", "separators", "move_dup", "identical", "minor_change", "line_endings", "diff_lookalike", "long_repetitive",
                "large_outputs", "entry_lookalike_json"]


def big_text(r, kind="html", size=None):
    """text whose length straddles nbdime's comparison cut-offs (10000 chars for text mime data, 1000 for streams)"""
    # just below the 10000-character cut-off difflib's quadratic ratio runs in full (several seconds per comparison of
    # two nearly equal texts): that size is drawn rarely
    size = size or r.choice([900, 1100, 3000, 3000, 10500, 13000, 13000, 36000] + ([9500] if r.random() < 0.15 else []))
    if kind == "html":
        rows, i = ["<table>"], 0
        while sum(map(len, rows)) < size:
            rows.append("<tr><td>%d</td><td>%0.3f</td><td>row %d</td></tr>" % (i, i * 0.37, i % 11))
            i += 1
        return "\n".join(rows + ["</table>"])
    out, i = [], 0
    while sum(map(len, out)) < size:
        out.append("step %d loss=%0.4f acc=%0.3f\n" % (i, 1.0 / (i + 1), 1 - 1.0 / (i + 2)))
        i += 1
    return "".join(out)


def inflate_outputs(nb, r, gen=None):
    """give some outputs of some code cells a large payload; returns number of inflated outputs"""
    n = 0
    for c in nb["cells"]:
        if c["cell_type"] != "code":
            continue
        if not c["outputs"] and r.random() < 0.5:
            ec = c.get("execution_count") or 1
            c["execution_count"] = ec
            c["outputs"].append({"output_type": "execute_result", "execution_count": ec, "metadata": {}, "data": {"text/plain": "<table object>"}})
        for o in c["outputs"]:
            if r.random() < 0.3:
                continue
            if o["output_type"] == "stream":
                o["text"] = big_text(r, "log", r.choice([900, 1100, 3000]))
                n += 1
            elif "data" in o:
                o["data"][r.choice(["text/html", "text/plain", "text/html", "application/javascript"])] = big_text(r, "html")
                n += 1
    return n


def _code_cell(gen, minor, source, outputs=None):
    c = gen.cell(minor, "code")
    c["source"] = source
    if outputs is not None:
        c["outputs"] = outputs
    return c


def nb_pair(gen, cls=None, minor=None):
    """One (class, A, B, record) case.  A and B are schema-valid (caller may re-check)."""
    r = gen.rng
    cls = cls or r.choice(PAIR_CLASSES)
    if cls == "unrelated":
        return cls, gen.notebook(minor), gen.notebook(minor), ["unrelated"]
    if cls == "fixture_mut":
        fx = fixtures()
        if fx:
            name, a = r.choice(fx)
            a = copy.deepcopy(a)
            if r.random() < 0.3:
                name2, b = r.choice(fx)
                return cls, a, copy.deepcopy(b), ["fixture pair %s %s" % (name, name2)]
            b, rec = mutate(a, gen, allow_minor=False)
            return cls, a, b, ["fixture %s" % name] + rec
        cls = "related"
    a = gen.notebook(minor, ncells=r.choice([1, 2, 3, 4, 5, 6, 8]))
    m = a["nbformat_minor"]
    if cls == "identical":
        return cls, a, copy.deepcopy(a), ["identical"]
    if cls == "related":
        b, rec = mutate(a, gen)
        return cls, a, b, rec
    if cls == "minor_change":
        b, rec = mutate(a, gen, allow_minor=True, steps=r.choice([1, 2, 3]))
        from .gen_edit import change_minor
        rec.append(change_minor(b, gen))
        return cls, a, b, rec
    b = copy.deepcopy(a)
    rec = [cls]
    if cls == "sim_straddle":
        # a long source; change a controlled fraction of its characters so the ratio sits
        # around the 0.7 / 0.95 thresholds
        lines = [gen.line(CODE_LINES) for _ in range(r.choice([4, 8, 12]))]
        src = "\n".join(lines) + "\n"
        a["cells"].insert(0, _code_cell(gen, m, src, []))
        b = copy.deepcopy(a)
        frac = r.choice([0.03, 0.05, 0.08, 0.2, 0.28, 0.32, 0.4])
        chars = list(src)
        for k in r.sample(range(len(chars)), max(1, int(len(chars) * frac))):
            if chars[k] != "\n":
                chars[k] = r.choice("QWZ#")
        b["cells"][0]["source"] = "".join(chars)
        if r.random() < 0.4:
            # ... or lines swapped / dropped: difflib's ratio then depends on the ORDER of its two arguments
            ls = list(lines)
            i_ = r.randrange(len(ls) - 1)
            ls[i_], ls[i_ + 1] = ls[i_ + 1], ls[i_]
            if len(ls) > 3:
                del ls[r.randrange(len(ls))]
            if r.random() < 0.5:
                j_ = r.randrange(len(ls))
                ls.insert(j_, ls[j_])
            b["cells"][0]["source"] = "\n".join(ls) + "\n"
        if r.random() < 0.5:   # and something else moves around it
            b, rec2 = mutate(b, gen, steps=1)
            rec += rec2
        rec.append("frac=%s" % frac)
    elif cls == "short_sources":
        for nb in (a, b):
            nb["cells"] = nb["cells"][:2]
        shorts = ["x", "y", "1", "a=1", "b=2", "ok", "", "z\n"]
        for _ in range(r.randrange(2, 6)):
            c = _code_cell(gen, m, r.choice(shorts), [])
            a["cells"].append(c)
        b = copy.deepcopy(a)
        for c in b["cells"]:
            if r.random() < 0.5:
                c["source"] = r.choice(shorts)
        if r.random() < 0.5 and b["cells"]:
            b["cells"].insert(r.randrange(len(b["cells"]) + 1), _code_cell(gen, m, r.choice(shorts), []))
    elif cls == "base64":
        n = r.choice([12, 30, 45, 47, 48, 49, 60, 90, 300])
        o = {"output_type": "display_data", "metadata": {}, "data": {"image/png": b64(r, n), "text/plain": "<Figure>"}}
        a["cells"].insert(0, _code_cell(gen, m, "plot()", [o]))
        b = copy.deepcopy(a)
        v = b["cells"][0]["outputs"][0]["data"]
        cc = r.random()
        if cc < 0.5:
            v["image/png"] = b64(r, r.choice([n, n, 30, 90]))
        elif cc < 0.7:
            v["image/png"] = v["image/png"][:-4] + "AAAA"
        else:
            v["image/png"] = v["image/png"] + "\n"
        rec.append("n=%d" % n)
        if r.random() < 0.5:
            # base64-LOOKING text where text is diffed as text: a pasted key in a source, a token in metadata, a stream
            # line - edited by a few characters, possibly spanning several lines
            blob = b64(r, r.choice([60, 90, 200]))
            if r.random() < 0.5:
                blob = "\n".join(blob[i:i + 76] for i in range(0, len(blob), 76))
            where = r.choice(["source", "metadata", "stream", "text/plain"])
            ca, cb = a["cells"][0], b["cells"][0]
            if where == "source":
                ca["source"] = cb["source"] = blob
            elif where == "metadata":
                ca["metadata"]["token"] = cb["metadata"]["token"] = blob
            elif where == "stream":
                for c_ in (ca, cb):
                    c_["outputs"].append({"output_type": "stream", "name": "stdout", "text": blob})
            else:
                ca["outputs"][0]["data"]["text/plain"] = cb["outputs"][0]["data"]["text/plain"] = blob
            j = r.randrange(len(blob) - 4)
            nb_ = blob[:j] + ("AAAA" if blob[j:j + 4] != "AAAA" else "BBBB") + blob[j + 4:]
            if where == "source":
                cb["source"] = nb_
            elif where == "metadata":
                cb["metadata"]["token"] = nb_
            elif where == "stream":
                cb["outputs"][-1]["text"] = nb_
            else:
                cb["outputs"][0]["data"]["text/plain"] = nb_
            rec.append("base64-looking-" + where)
    elif cls == "pointer_only":
        o = {"output_type": "execute_result", "execution_count": 1, "metadata": {},
             "data": {"text/plain": "<matplotlib.lines.Line2D at 0x7f%06xa0>" % r.randrange(16 ** 6)}}
        a["cells"].insert(0, _code_cell(gen, m, "plt.plot(x)", [o]))
        b = copy.deepcopy(a)
        b["cells"][0]["outputs"][0]["data"]["text/plain"] = "<matplotlib.lines.Line2D at 0x7f%06xa0>" % r.randrange(16 ** 6)
    elif cls == "mime_keys" and r.random() < 0.4:
        # unusual spellings of mime types (they are case-insensitive; nbformat does not restrict them), kept on both
        # sides with different values, in an output's data and in an attachment
        odd = {"image/PNG": b64(r, 30), "text/Markdown": "# title\n\ntext\n", "Text/X-Custom": "line 1\nline 2\n",
               "application/vnd.Acme.Table+json": {"rows": [1, 2]}, "TEXT/PLAIN": "shout\n"}
        keys = r.sample(sorted(odd), r.randrange(1, 4))
        o = {"output_type": "display_data", "metadata": {}, "data": {k: copy.deepcopy(odd[k]) for k in keys}}
        o["data"]["text/plain"] = "<obj>"
        a["cells"].insert(0, _code_cell(gen, m, "display(x)", [o]))
        mc = gen.cell(m, "markdown")
        mc["attachments"] = {"fig": {k: copy.deepcopy(odd[k]) for k in keys if not k.endswith("json")} or {"image/PNG": odd["image/PNG"]}}
        a["cells"].insert(1, mc)
        b = copy.deepcopy(a)
        for bundle in (b["cells"][0]["outputs"][0]["data"], b["cells"][1]["attachments"]["fig"]):
            for k in list(bundle):
                if k == "text/plain" or r.random() < 0.3:
                    continue
                v = bundle[k]
                bundle[k] = (v[:-4] + "QUJD") if k == "image/PNG" else ((v + "more\n") if isinstance(v, str) else dict(v, rows=[1, 2, 3]))
        rec.append("mixed-case-mime-keys")
    elif cls == "mime_keys":
        o = gen.output("display_data")
        a["cells"].insert(0, _code_cell(gen, m, "display(x)", [o]))
        b = copy.deepcopy(a)
        d = b["cells"][0]["outputs"][0]["data"]
        extra = gen.mimebundle()
        for k in list(d):
            if r.random() < 0.4:
                del d[k]
        d.update(extra)
    elif cls == "output_kinds":
        kinds = ["stream", "error", "display_data", "execute_result"]
        a["cells"].insert(0, _code_cell(gen, m, "run()", [gen.output(r.choice(kinds)) for _ in range(r.randrange(1, 4))]))
        b = copy.deepcopy(a)
        outs = b["cells"][0]["outputs"]
        for k in range(len(outs)):
            if r.random() < 0.6:
                outs[k] = gen.output(r.choice(kinds))
    elif cls == "attachments":
        c = gen.cell(m, "markdown")
        c["attachments"] = {"a.png": gen.mimebundle(True)}
        if r.random() < 0.4:
            # JSON-typed attachments: any JSON value is allowed, also a bare number / boolean
            c["attachments"]["data.json"] = {"application/json": r.choice([3, 2.5, True, {"k": 1}, [1, 2], "text", None])}
            if r.random() < 0.5:
                c["attachments"]["spec.vl.json"] = {"application/vnd.custom+json": r.choice([0, False, 1.0, {"mark": "bar"}])}
        a["cells"].insert(0, c)
        b = copy.deepcopy(a)
        for _ in range(r.randrange(1, 3)):
            rec.append(mutate_once(b, gen, "attachments") or "noop")
        for name in ("data.json", "spec.vl.json"):
            att = b["cells"][0].get("attachments", {})
            if name in att and att[name] and r.random() < 0.6:
                from .gen_edit import _edit_bundle
                _edit_bundle(att[name], gen)
                rec.append("json-attachment-edit")
    elif cls == "meta_types":
        tgt = r.choice(["nb", "cell"]) if a["cells"] else "nb"
        md = a["metadata"] if tgt == "nb" else a["cells"][0]["metadata"]
        md["t1"] = r.choice([1, True, 1.0, 0, False, 0.0])
        md["t2"] = {"deep": [r.choice([1, True, 1.0])], "k": r.choice([0, False])}
        md["t3"] = [1, True, 1.0]
        b = copy.deepcopy(a)
        mdb = b["metadata"] if tgt == "nb" else b["cells"][0]["metadata"]
        mdb["t1"] = r.choice([1, True, 1.0, 0, False, 0.0])
        mdb["t2"]["deep"][0] = r.choice([1, True, 1.0])
        mdb["t2"]["k"] = r.choice([0, False, 0.0])
        r.shuffle(mdb["t3"])
    elif cls == "separators":
        sep = r.choice(EXOTIC_SEPS)
        src = "a = 1" + sep + "b = 2\n" + "c = 3" + r.choice(EXOTIC_SEPS) + "\nd = 4"
        o = {"output_type": "stream", "name": "stdout", "text": "one" + sep + "two\nthree" + sep}
        o2 = {"output_type": "display_data", "metadata": {}, "data": {"text/plain": "p" + sep + "q" + sep + "r", "text/html": "<b>" + sep + "</b>\n"}}
        a["cells"].insert(0, _code_cell(gen, m, src, [o, o2]))
        b = copy.deepcopy(a)
        c = b["cells"][0]
        c["source"] = edit_text(c["source"], gen, CODE_LINES)
        c["outputs"][0]["text"] = c["outputs"][0]["text"].replace("two", "TWO" + r.choice(EXOTIC_SEPS))
        c["outputs"][1]["data"]["text/plain"] = "p" + sep + "Q" + r.choice(EXOTIC_SEPS) + "r"
    elif cls == "long_repetitive":
        # long texts (50-150 lines) with many repeated lines (blank lines, progress output); the edit inserts or
        # deletes a line next to an identical one, or touches a single line far from both ends
        def long_text():
            n = r.choice([52, 60, 75, 100, 150])
            pool_ = ["", "", "Epoch %d/100" % r.randrange(3), "....", "x = x + 1", "# ---", "print(x)"]
            lines = [r.choice(pool_) if r.random() < 0.7 else "unique line %d" % j for j in range(n)]
            return lines
        src = long_text()
        out = long_text()
        a["cells"].insert(0, _code_cell(gen, m, "\n".join(src) + "\n", [{"output_type": "stream", "name": "stdout", "text": "\n".join(out) + "\n"}]))
        b = copy.deepcopy(a)

        def edit_long(lines):
            lines = list(lines)
            cc = r.random()
            k = r.randrange(1, len(lines) - 1)
            if cc < 0.35:
                lines.insert(k, lines[k])               # duplicate a line next to itself
            elif cc < 0.6:
                dup = [i for i in range(1, len(lines)) if lines[i] == lines[i - 1]]
                if dup:
                    del lines[r.choice(dup)]             # remove one of two equal neighbours
                else:
                    del lines[k]
            elif cc < 0.8:
                lines[k] = lines[k] + " changed"
            else:
                lines.insert(k, "inserted %d" % r.randrange(100))
            return lines
        which = r.choice(["source", "output", "both"])
        if which in ("source", "both"):
            b["cells"][0]["source"] = "\n".join(edit_long(src)) + "\n"
        if which in ("output", "both"):
            b["cells"][0]["outputs"][0]["text"] = "\n".join(edit_long(out)) + "\n"
        rec.append(which)
    elif cls == "large_outputs":
        # outputs whose text payload is beyond / around the alignment predicates' comparison cut-offs; the edit
        # re-runs (execution counts), touches output metadata, changes one character near the start or the very
        # end of the payload, or re-orders / duplicates such outputs
        ec = r.randrange(1, 9)
        html = big_text(r, "html")
        outs = [{"output_type": "execute_result", "execution_count": ec, "metadata": {}, "data": {"text/html": html, "text/plain": "<table %d>" % len(html)}},
                {"output_type": "stream", "name": "stdout", "text": big_text(r, "log", r.choice([900, 1100, 3000]))}]
        if r.random() < 0.5:
            outs.append({"output_type": "display_data", "metadata": {}, "data": {"text/html": r.choice([html, big_text(r, "html")])}})
        r.shuffle(outs)
        cell = _code_cell(gen, m, "df.describe()\n", outs)
        cell["execution_count"] = ec
        a["cells"].insert(r.randrange(len(a["cells"]) + 1), cell)
        b = copy.deepcopy(a)
        bc = [c for c in b["cells"] if c.get("source") == "df.describe()\n"][0]
        for _ in range(r.choice([1, 1, 2, 3])):
            what = r.choice(["rerun_counts", "out_meta", "char_start", "char_end", "swap", "dup", "cell_source"])
            rec.append(what)
            o = r.choice(bc["outputs"])
            if what == "rerun_counts":
                bc["execution_count"] += 1
                for oo in bc["outputs"]:
                    if oo["output_type"] == "execute_result":
                        oo["execution_count"] = bc["execution_count"]
            elif what == "out_meta" and "metadata" in o:
                o["metadata"][r.choice(["isolated", "needs_background", "w"])] = r.choice([True, "light", 3])
            elif what in ("char_start", "char_end"):
                key = "text" if o["output_type"] == "stream" else r.choice(sorted(o["data"]))
                holder = o if key == "text" else o["data"]
                t = holder[key]
                j = r.randrange(min(40, len(t))) if what == "char_start" else len(t) - 1 - r.randrange(min(40, len(t)))
                holder[key] = t[:j] + ("#" if t[j] != "#" else "%") + t[j + 1:]
            elif what == "swap" and len(bc["outputs"]) > 1:
                bc["outputs"].insert(0, bc["outputs"].pop())
            elif what == "dup":
                bc["outputs"].append(copy.deepcopy(o))
            elif what == "cell_source":
                bc["source"] = bc["source"] + "df.head()\n"
    elif cls == "entry_lookalike_json":
        # notebook CONTENT (metadata, application/json outputs) made of objects that look like nbdime's own diff entries
        # and merge decisions: a change log, an undo stack, a saved diff
        def entry():
            op = r.choice(["add", "remove", "replace", "addrange", "removerange", "patch"])
            e = {"op": op, "key": r.choice(["threshold", 0, 3, "cells"])}
            if op in ("add", "replace"):
                e["value"] = r.choice([0.7, "v", [1], {"k": 1}])
            elif op == "addrange":
                e["valuelist"] = r.choice([["a", "b"], "text"])
            elif op == "removerange":
                e["length"] = r.randrange(1, 4)
            elif op == "patch":
                e["diff"] = [{"op": "replace", "key": "x", "value": 1, "why": "nested"}]
            if r.random() < 0.8:
                e.update({"author": r.choice(["kim", "lee"]), "at": "2024-0%d-01" % r.randrange(1, 9)})
            return e
        log = [entry() for _ in range(r.randrange(1, 4))]
        dec = {"common_path": ["cells", 0], "action": "local", "conflict": False, "local_diff": [entry()], "remote_diff": None, "note": "saved"}
        tgt = r.choice(["nb_meta", "cell_meta", "output"])
        if tgt == "nb_meta" or not a["cells"]:
            a["metadata"]["changelog"] = log[:1]
        elif tgt == "cell_meta":
            a["cells"][0]["metadata"]["undo"] = log[:1]
        else:
            a["cells"].insert(0, _code_cell(gen, m, "history()", [{"output_type": "display_data", "metadata": {}, "data": {"application/json": log[:1], "text/plain": "<log>"}}]))
        b = copy.deepcopy(a)
        if tgt == "nb_meta" or not a["cells"]:
            b["metadata"]["changelog"] = log + ([dec] if r.random() < 0.5 else [])
            b["metadata"]["last"] = entry()
        elif tgt == "cell_meta":
            b["cells"][0]["metadata"]["undo"] = log + [dec]
        else:
            b["cells"][0]["outputs"][0]["data"]["application/json"] = log + [entry()]
            b["cells"][0]["outputs"].append({"output_type": "display_data", "metadata": {"saved": entry()}, "data": {"application/json": dec}})
        rec.append(tgt)
    elif cls == "diff_lookalike":
        look = ["\\ No newline at end of file", "--- before", "+++ after", "@@ -1,3 +1,3 @@", "-removed", "+added", " context",
                "diff --git a/before b/after", "index 000..111 100644", "<<<<<<< not a real marker", "text"]
        la = [r.choice(look) for _ in range(r.randrange(3, 9))]
        if r.random() < 0.7:
            for _ in range(3):
                la.insert(r.randrange(len(la) + 1), look[0])
        lb = list(la)
        for _ in range(r.randrange(1, 4)):
            lb[r.randrange(len(lb))] = r.choice(look)
        if r.random() < 0.5:
            lb.insert(r.randrange(len(lb) + 1), "\\ No newline at end of file")
        a["cells"].insert(0, _code_cell(gen, m, "\n".join(la) + r.choice(["", "\n"]), [{"output_type": "stream", "name": "stdout", "text": "\n".join(la)}]))
        b = copy.deepcopy(a)
        b["cells"][0]["source"] = "\n".join(lb) + r.choice(["", "\n"])
        b["cells"][0]["outputs"][0]["text"] = "\n".join(lb) + r.choice(["", "\n"])
    elif cls == "move_dup":
        b, rec = mutate(a, gen, steps=r.choice([1, 2, 3]), ops=["move", "insert_dup", "move", "delete"])
    elif cls == "line_endings":
        b, rec = mutate(a, gen, steps=r.choice([1, 2]), ops=["line_endings", "append_line", "edit_source"])
    return cls, a, b, rec


def asymmetric_similarity_sources(gen, threshold=0.7, tries=60):
    """two texts whose difflib similarity lies on DIFFERENT sides of the threshold depending on the order of the two
    arguments (SequenceMatcher.ratio is not symmetric): lines swapped, dropped, duplicated.  None if not found."""
    import difflib
    r = gen.rng
    for _ in range(tries):
        lines = [gen.line(CODE_LINES) for _ in range(r.choice([4, 5, 6, 8]))]
        ls = list(lines)
        for _e in range(r.choice([2, 3, 4])):
            c = r.random()
            i_ = r.randrange(len(ls))
            if c < 0.4 and len(ls) > 1:
                j_ = r.randrange(len(ls))
                ls[i_], ls[j_] = ls[j_], ls[i_]
            elif c < 0.65 and len(ls) > 2:
                del ls[i_]
            elif c < 0.85:
                ls.insert(i_, ls[i_])
            else:
                ls[i_] = gen.line(CODE_LINES)
        x, y = "\n".join(lines) + "\n", "\n".join(ls) + "\n"
        r1 = difflib.SequenceMatcher(None, x, y, autojunk=False).ratio()
        r2 = difflib.SequenceMatcher(None, y, x, autojunk=False).ratio()
        if (r1 > threshold) != (r2 > threshold):
            return x, y
    return None


def shuffle_keys(x, r):
    """the same JSON document with another member order in every object (JSON objects are unordered; notebooks
    written by other tools order their keys differently)"""
    if isinstance(x, dict):
        keys = list(x)
        r.shuffle(keys)
        return {k: shuffle_keys(x[k], r) for k in keys}
    if isinstance(x, list):
        return [shuffle_keys(v, r) for v in x]
    return x


def valid_pair(gen, cls=None, minor=None, tries=5):
    """nb_pair whose two notebooks pass the pure-jsonschema self-check; returns
    (cls, A, B, rec, waste) where waste counts discarded invalid generations."""
    waste = 0
    for _ in range(tries):
        cls2, a, b, rec = nb_pair(gen, cls, minor)
        if not validate_nb(a) and not validate_nb(b):
            if gen.rng.random() < 0.2:
                a, b = shuffle_keys(a, gen.rng), shuffle_keys(b, gen.rng)
                rec = list(rec) + ["member-order-shuffled"]
            return cls2, a, b, rec, waste
        waste += 1
    return None, None, None, None, waste


# ---------------------------------------------------------------------------
# merge triples
# ---------------------------------------------------------------------------
def canon_eq(a, b):
    from .canon import canon
    return canon(a) == canon(b)


TRIPLE_CLASSES = ["random", "random", "random", "del_vs_edit", "del_vs_edit", "insert_near", "both_insert_similar",
                  "both_insert_dissimilar", "same_attachment", "same_meta_key", "same_output", "same_line",
                  "minor_diff", "retype", "empty_source", "both_append_outputs", "exec_count", "fixture",
                  "nbmeta_conflict", "out_meta_conflict", "multi_line_meta", "del_vs_transient", "del_vs_transient",
                  "both_insert_lists", "nul_in_source", "same_insert_edit_below", "transient_meta_conflict",
                  "del_vs_output_edit", "large_outputs", "long_notebook", "wide_metadata", "both_rerun", "both_rerun", "same_size_sides", "repeated_content", "same_frame_insert", "cr_progress", "both_reid", "same_id_insert", "slash_keys", "same_edit_insert_above", "multi_mime_conflict"]


def merge_triple(gen, cls=None, minor=None, plain_eol=False):
    """(class, base, local, remote, info).  plain_eol restricts sources to \\n / \\r\\n
    line endings and no exotic separators (C07: external tools are line tools)."""
    r = gen.rng
    if cls is None:
        cls = r.choice(TRIPLE_CLASSES)
        if cls == "long_notebook" and r.random() < 0.6:      # ~1 s per merge without cell ids: keep it rare
            cls = "random"
    info = {}
    if cls == "fixture":
        fx = fixtures()
        if fx:
            name, base = r.choice(fx)
            base = copy.deepcopy(base)
            loc, r1 = mutate(base, gen, steps=r.choice([1, 2, 3]))
            rem, r2 = mutate(base, gen, steps=r.choice([1, 2, 3]))
            if plain_eol:
                for nb in (base, loc, rem):
                    for c in nb["cells"]:
                        c["source"] = _plain(c["source"])
            return cls, base, loc, rem, {"fixture": name, "local": r1, "remote": r2}
        cls = "random"
    base = gen.notebook(minor, ncells=r.choice([1, 2, 3, 4, 5, 6, 8]))
    m = base["nbformat_minor"]
    if not base["cells"]:
        base["cells"].append(gen.cell(m))
    loc = copy.deepcopy(base)
    rem = copy.deepcopy(base)
    k = r.randrange(len(base["cells"]))
    if cls == "random":
        loc, r1 = mutate(base, gen, steps=r.choice([1, 2, 3, 5]), allow_minor=r.random() < 0.15)
        rem, r2 = mutate(base, gen, steps=r.choice([1, 2, 3, 5]), allow_minor=r.random() < 0.15)
        info = {"local": r1, "remote": r2}
    elif cls == "del_vs_edit":
        deleter, editor = (loc, rem) if r.random() < 0.5 else (rem, loc)
        # editor edits cell k (one to three edits, possibly mixing transient and real ones), deleter removes it
        tmp = {"nbformat": 4, "nbformat_minor": m, "metadata": {}, "cells": [editor["cells"][k]]}
        rec = []
        for _ in range(r.choice([1, 1, 2, 3])):
            what = r.choice(["edit_source", "edit_source", "edit_output", "cell_meta", "exec_count", "rerun", "attachments", "transient_meta", "transient_meta"])
            rec.append(mutate_once(tmp, gen, what) or what)
        del deleter["cells"][k]
        if r.random() < 0.4:
            deleter2, rr = mutate(deleter, gen, steps=1)
            deleter["cells"] = deleter2["cells"]
        info = {"k": k, "edit": rec or what, "deleter": "local" if deleter is loc else "remote"}
    elif cls == "del_vs_output_edit":
        # one side deletes a code cell; the other changes one of its outputs in place (a similar stream line,
        # a mime value, output metadata) and possibly the source too
        c = gen.cell(m, "code")
        c["execution_count"] = 2
        c["outputs"] = [{"output_type": "stream", "name": "stdout", "text": "".join(gen.line(OUT_LINES) + "\n" for _ in range(r.choice([1, 3, 4])))}]
        if r.random() < 0.5:
            c["outputs"].insert(r.choice([0, 1]), gen.output(r.choice(["execute_result", "display_data", "error"]), ec=2))
        pos = r.randrange(len(base["cells"]) + 1)
        for nb in (base, loc, rem):
            nb["cells"].insert(pos, copy.deepcopy(c))
        deleter, editor = (loc, rem) if r.random() < 0.5 else (rem, loc)
        del deleter["cells"][pos]
        tmp = {"nbformat": 4, "nbformat_minor": m, "metadata": {}, "cells": [editor["cells"][pos]]}
        rec = []
        for what in r.choice([["edit_output"], ["edit_output", "edit_source"], ["edit_output", "edit_output"], ["mime_edit", "edit_output"], ["out_meta", "edit_output"]]):
            rec.append(mutate_once(tmp, gen, what) or what)
        info = {"pos": pos, "edit": rec, "deleter": "local" if deleter is loc else "remote"}
    elif cls == "del_vs_transient":
        # one side removes a cell or one of its outputs, the other changes ONLY transient fields of that item
        # (execution counts, collapsed / scrolled / autoscroll)
        c = gen.cell(m, "code")
        c["execution_count"] = 3
        c["outputs"] = [gen.output("execute_result", ec=3), gen.output("stream")][: r.choice([1, 2])]
        c["outputs"][0]["execution_count"] = 3
        pos = r.randrange(len(base["cells"]) + 1)
        for nb in (base, loc, rem):
            nb["cells"].insert(pos, copy.deepcopy(c))
        deleter, changer = (loc, rem) if r.random() < 0.5 else (rem, loc)
        what = r.choice(["cell", "output"])
        if what == "cell":
            del deleter["cells"][pos]
        else:
            del deleter["cells"][pos]["outputs"][0]
        tc = changer["cells"][pos]
        for _ in range(r.choice([1, 1, 2])):
            cc = r.random()
            if cc < 0.35 or what == "output":
                tc["outputs"][0]["execution_count"] = (tc["outputs"][0]["execution_count"] or 0) + 4
                if what == "cell" and r.random() < 0.5:
                    tc["execution_count"] = (tc["execution_count"] or 0) + 4
            elif cc < 0.6:
                tc["execution_count"] = (tc["execution_count"] or 0) + 1
            else:
                tmp = {"nbformat": 4, "nbformat_minor": m, "metadata": {}, "cells": [tc]}
                mutate_once(tmp, gen, "transient_meta")
        info = {"pos": pos, "deleted": what, "deleter": "local" if deleter is loc else "remote"}
    elif cls == "both_insert_lists":
        # both sides insert LISTS of cells at one position: local items each have a similar, an identical or no
        # counterpart on the remote side, and the remote side may have extra items (unequal lengths, offsets)
        pos = r.randrange(len(base["cells"]) + 1)
        litems, ritems = [], []
        def fresh_cell():
            c_ = gen.cell(m, r.choice(["code", "markdown"]))
            c_["source"] = "\n".join(gen.line(CODE_LINES) + " %d" % r.randrange(1000) for _ in range(4)) + "\n"
            return c_
        if r.random() < 0.3:
            # a run of mutually dissimilar cells of UNEQUAL length on the two sides, then (later in the same insertion)
            # a similar-but-not-identical pair, possibly followed by more
            nl, nr = r.choice([(1, 2), (2, 1), (1, 3), (3, 1), (2, 3), (0, 2), (2, 0)])
            litems.extend(fresh_cell() for _ in range(nl))
            ritems.extend(fresh_cell() for _ in range(nr))
            for _ in range(r.choice([0, 0, 1])):
                same = fresh_cell()
                litems.append(same)
                ritems.append(copy.deepcopy(same))
        for j in range(r.choice([1, 2, 2, 3, 4, 5])):
            c1 = fresh_cell()
            cc = r.random()
            if cc < 0.25:
                litems.append(c1)                      # local only (sometimes a run of 2-3)
                for _ in range(r.choice([0, 0, 1, 2])):
                    litems.append(fresh_cell())
            elif cc < 0.45:
                ritems.append(c1)                      # remote only (sometimes a run of 2-3)
                for _ in range(r.choice([0, 0, 1, 2])):
                    ritems.append(fresh_cell())
            elif cc < 0.6:
                litems.append(c1)
                c2 = copy.deepcopy(c1)
                if "id" in c2 and r.random() < 0.5:
                    c2["id"] = gen.new_id()
                ritems.append(c2)                      # identical
            else:
                litems.append(c1)
                c2 = copy.deepcopy(c1)
                if "id" in c2 and r.random() < 0.7:
                    c2["id"] = gen.new_id()
                c2["source"] = edit_text(c2["source"], gen, CODE_LINES)
                ritems.append(c2)                      # similar
        if r.random() < 0.3:
            ritems.insert(r.randrange(len(ritems) + 1), gen.cell(m))
        for j, c_ in enumerate(litems):
            loc["cells"].insert(pos + j, c_)
        for j, c_ in enumerate(ritems):
            rem["cells"].insert(pos + j, c_)
        info = {"pos": pos, "nlocal": len(litems), "nremote": len(ritems)}
    elif cls == "same_insert_edit_below":
        # both sides insert the IDENTICAL line(s) at one place of a source; one side (or both, differently) also edits the
        # line just below / above the insertion: an agreed insertion and a line patch meet at one line key
        n = r.choice([3, 4, 6])
        lines = [r.choice(["", "    ", "        "]) + "value_%d = %d" % (j, r.randrange(100)) for j in range(n)]
        fin = r.choice(["\n", "\n", ""])
        c = gen.cell(m, r.choice(["code", "markdown"]))
        c["source"] = "\n".join(lines) + fin
        pos = r.randrange(len(base["cells"]) + 1)
        for nb in (base, loc, rem):
            nb["cells"].insert(pos, copy.deepcopy(c))
        j = r.randrange(n)
        ins = ["shared = %d" % r.randrange(100)] * r.choice([1, 1, 2])
        ll, rl = list(lines), list(lines)
        who = r.choice(["local", "remote", "both"])

        def edit_line(t, tail):
            # append at the end / change inside / REMOVE a prefix (dedent, drop a leading token) / prepend
            how = r.choice(["append", "append", "dedent", "drop_head", "prepend", "inside"])
            if how == "dedent" and t.startswith("    "):
                return t[4:]
            if how == "drop_head":
                return t.lstrip()[len("value_"):] if t.lstrip().startswith("value_") else t[1:]
            if how == "prepend":
                return "# " + t
            if how == "inside":
                return t.replace(" = ", " == ", 1)
            return t + tail
        if who in ("local", "both"):
            ll[j] = edit_line(ll[j], "0")
        if who in ("remote", "both"):
            rl[j] = edit_line(rl[j], "0" if r.random() < 0.3 else "7")
        ll[j:j] = ins
        rl[j:j] = ins
        loc["cells"][pos]["source"] = "\n".join(ll) + fin
        rem["cells"][pos]["source"] = "\n".join(rl) + fin
        info = {"pos": pos, "line": j, "who_edits": who}
    elif cls == "transient_meta_conflict":
        # the display-state keys the merger calls transient, changed to DIFFERENT values on the two sides (scrolled is
        # three-valued: true / false / "auto"), added on both sides, or removed on one side and changed on the other
        c = gen.cell(m, "code")
        c["metadata"] = {"scrolled": "auto", "collapsed": True, "autoscroll": "auto", "tags": ["keep"]}
        for key in r.sample(["scrolled", "collapsed", "autoscroll"], r.choice([0, 1])):
            del c["metadata"][key]
        pos = r.randrange(len(base["cells"]) + 1)
        for nb in (base, loc, rem):
            nb["cells"].insert(pos, copy.deepcopy(c))
        lm, rmm = loc["cells"][pos]["metadata"], rem["cells"][pos]["metadata"]
        for key, vals in (("scrolled", [True, False, "auto"]), ("autoscroll", [True, False, "auto"]), ("collapsed", [True, False])):
            cc = r.random()
            if cc < 0.5:
                a_, b_ = r.sample(vals, 2) if len(vals) > 2 else (vals[0], vals[1])
                lm[key], rmm[key] = a_, b_
            elif cc < 0.65:
                lm.pop(key, None)
                rmm[key] = r.choice(vals)
            elif cc < 0.8:
                lm[key] = r.choice(vals)
        if r.random() < 0.4:
            loc["cells"][pos]["source"] = edit_text(loc["cells"][pos]["source"], gen, CODE_LINES)
        info = {"pos": pos}
    elif cls == "large_outputs":
        # payloads beyond the comparison cut-offs of the output alignment (10000 chars mime text, 1000 chars stream):
        # one side re-runs (counts, a character near the end of the payload), the other edits source / output
        # metadata / a character near the start, or clears the outputs
        ec = r.randrange(1, 9)
        html = big_text(r, "html")
        outs = [{"output_type": "execute_result", "execution_count": ec, "metadata": {}, "data": {"text/html": html, "text/plain": "<table %d>" % len(html)}},
                {"output_type": "stream", "name": "stdout", "text": big_text(r, "log", r.choice([900, 1100, 3000]))}]
        r.shuffle(outs)
        c = _code_cell(gen, m, "df.describe()\n", outs)
        c["execution_count"] = ec
        pos = r.randrange(len(base["cells"]) + 1)
        for nb in (base, loc, rem):
            nb["cells"].insert(pos, copy.deepcopy(c))

        def poke(cell, where):
            o = r.choice(cell["outputs"])
            key = "text" if o["output_type"] == "stream" else "text/html"
            holder = o if key == "text" else o["data"]
            t = holder[key]
            j = r.randrange(min(40, len(t))) if where == "start" else len(t) - 1 - r.randrange(min(40, len(t)))
            holder[key] = t[:j] + ("#" if t[j] != "#" else "%") + t[j + 1:]
        lc, rc = loc["cells"][pos], rem["cells"][pos]
        lc["execution_count"] = ec + 1
        for o in lc["outputs"]:
            if o["output_type"] == "execute_result":
                o["execution_count"] = ec + 1
        if r.random() < 0.6:
            poke(lc, "end")
        what = r.choice(["source", "out_meta", "poke_start", "poke_end", "clear", "rerun_too"])
        if what == "source":
            rc["source"] += "df.head()\n"
        elif what == "out_meta":
            [o for o in rc["outputs"] if "metadata" in o][0]["metadata"]["isolated"] = True
        elif what.startswith("poke"):
            poke(rc, what[5:])
        elif what == "clear":
            rc["outputs"], rc["execution_count"] = [], None
        else:
            rc["execution_count"] = ec + 2
            for o in rc["outputs"]:
                if o["output_type"] == "execute_result":
                    o["execution_count"] = ec + 2
        info = {"pos": pos, "remote": what}
    elif cls == "long_notebook":
        # hundreds of cells: both sides edit / delete / insert around positions far beyond small indices
        n = r.choice([258, 270, 300])
        if m < 5 and minor is None and r.random() < 0.75:
            m = 5           # id-less long notebooks are aligned by source comparison (slow): a quarter of the cases
        cells = []
        for i in range(n):
            cc = {"cell_type": "code", "metadata": {}, "source": "cell_%d = %d" % (i, i * 7), "execution_count": None, "outputs": []}
            if m >= 5:
                cc["id"] = "c%05d" % i
            cells.append(cc)
        base = {"nbformat": 4, "nbformat_minor": m, "metadata": {}, "cells": cells}
        loc, rem = copy.deepcopy(base), copy.deepcopy(base)
        rec = []
        for side, nb in (("L", loc), ("R", rem)):
            for _ in range(r.randrange(1, 5)):
                k = r.choice([r.randrange(len(nb["cells"])), len(nb["cells"]) - 1 - r.randrange(0, 30)])
                what = r.choice(["edit", "edit", "delete", "insert", "meta"])
                rec.append((side, what, k))
                if what == "edit":
                    nb["cells"][k]["source"] += "\n# %s edit" % side
                elif what == "delete":
                    del nb["cells"][k]
                elif what == "insert":
                    new = {"cell_type": "markdown", "metadata": {}, "source": "%s inserted at %d" % (side, k)}
                    if m >= 5:
                        new["id"] = gen.new_id()
                    nb["cells"].insert(k, new)
                else:
                    nb["cells"][k]["metadata"]["tags"] = [side]
        info = {"n": n, "edits": rec}
    elif cls == "wide_metadata":
        # notebook metadata with 100-300 keys (saved widget state): both sides change / add / drop a few
        n = r.choice([100, 260, 300])
        state = {"model%04d" % i: {"model_name": "IntSliderModel", "state": {"description": "slider %d" % i, "value": i}} for i in range(n)}
        for nb in (base, loc, rem):
            nb["metadata"]["widgets"] = {"application/vnd.jupyter.widget-state+json": {"version_major": 2, "version_minor": 0, "state": copy.deepcopy(state)}}
        rec = []
        for side, nb in (("L", loc), ("R", rem)):
            st = nb["metadata"]["widgets"]["application/vnd.jupyter.widget-state+json"]["state"]
            for _ in range(r.randrange(1, 5)):
                key = "model%04d" % r.choice([r.randrange(n), n - 1 - r.randrange(5), 256 + r.randrange(4) if n > 260 else r.randrange(n)])
                what = r.choice(["value", "value", "drop", "add", "desc"])
                rec.append((side, what, key))
                if what == "value" and key in st:
                    st[key]["state"]["value"] = r.choice([st[key]["state"]["value"] + 1, 1000 + r.randrange(9), float(st[key]["state"]["value"])])
                elif what == "drop":
                    st.pop(key, None)
                elif what == "add":
                    st["model%04d_%s" % (r.randrange(n), side if r.random() < 0.7 else "X")] = {"model_name": "NewModel", "state": {"value": r.randrange(300, 999)}}
                elif key in st:
                    st[key]["state"]["description"] += " (%s)" % side
        info = {"n": n, "edits": rec}
    elif cls == "both_rerun":
        # the everyday case: both branches re-ran a cell - execution counts differ on the cell and on its
        # execute_result, and one or more of the (2-4) outputs changed a little on both sides
        ec = r.randrange(1, 20)
        outs = [{"output_type": "execute_result", "execution_count": ec, "metadata": {}, "data": {"text/plain": "%d" % r.randrange(99)}},
                {"output_type": "stream", "name": "stdout", "text": "line one\nline two\nline three\n"}]
        if r.random() < 0.5:
            outs.append(gen.output(r.choice(["display_data", "error", "stream"]), ec=ec))
        if r.random() < 0.3:
            outs.append({"output_type": "display_data", "metadata": {}, "data": {"text/plain": "<Figure>", "image/png": b64(r, 80)}})
        r.shuffle(outs)
        c = _code_cell(gen, m, "result = compute()\nresult\n", outs)
        c["execution_count"] = ec
        timing = r.random() < 0.5
        if timing:
            # JupyterLab's "record timing": a dict of ISO time stamps in the cell metadata, rewritten by every run
            c["metadata"]["execution"] = {"iopub.execute_input": "2024-01-01T10:00:00.000000Z", "iopub.status.busy": "2024-01-01T10:00:00.100000Z",
                                          "shell.execute_reply": "2024-01-01T10:00:01.000000Z"}
        pos = r.randrange(len(base["cells"]) + 1)
        for nb in (base, loc, rem):
            nb["cells"].insert(pos, copy.deepcopy(c))
        rec = []
        for side, nb, bump in (("L", loc, r.choice([1, 2])), ("R", rem, r.choice([1, 3, 3, 0]))):
            cc = nb["cells"][pos]
            if timing and (bump or side == "L"):
                day = "02" if side == "L" else "03"
                cc["metadata"]["execution"] = {k: v.replace("-01-01T", "-01-%sT" % day) for k, v in cc["metadata"]["execution"].items()}
                if r.random() < 0.3:
                    cc["metadata"]["execution"]["iopub.status.idle"] = "2024-01-%sT10:00:01.200000Z" % day
            if bump:
                cc["execution_count"] = ec + bump
                for o in cc["outputs"]:
                    if o["output_type"] == "execute_result":
                        o["execution_count"] = ec + bump
            for _ in range(r.choice([0, 1, 1, 2])):
                o = r.choice(cc["outputs"])
                what = o["output_type"]
                rec.append((side, what))
                if what == "stream":
                    o["text"] = o["text"].replace("two", "two %s" % side, 1) if r.random() < 0.7 else o["text"] + "more from %s\n" % side
                elif what == "error":
                    o["evalue"] += " (%s)" % side
                elif "text/plain" in o.get("data", {}):
                    o["data"]["text/plain"] += r.choice(["", " "]) + side
                else:
                    o.setdefault("metadata", {})["run_by"] = side
        info = {"pos": pos, "edits": rec}
    elif cls == "same_size_sides":
        # local and remote differ from base and from each other in single characters only: the three files have the
        # same byte size (and, written back to back by git, the same time stamp)
        c = gen.cell(m, "code")
        c["source"] = "a = 1\nb = 1\nc = 1\nprint(a + b + c)\n"
        c["outputs"] = []
        c["execution_count"] = None
        pos = r.randrange(len(base["cells"]) + 1)
        for nb in (base, loc, rem):
            nb["cells"].insert(pos, copy.deepcopy(c))
        mode = r.choice(["disjoint", "disjoint", "same_line", "one_sided"])
        loc["cells"][pos]["source"] = c["source"].replace("a = 1", "a = %d" % r.choice([2, 3]))
        if mode == "disjoint":
            rem["cells"][pos]["source"] = c["source"].replace("b = 1", "b = %d" % r.choice([2, 3]))
        elif mode == "same_line":
            rem["cells"][pos]["source"] = c["source"].replace("a = 1", "a = %d" % r.choice([4, 5]))
        info = {"pos": pos, "mode": mode}
    elif cls == "repeated_content":
        # the same output / metadata block / (id-less) cell occurs in several places of the base; each side changes ONE
        # occurrence (deep inside it)
        warn = {"output_type": "stream", "name": "stderr", "text": "UserWarning: deprecated call\n  warnings.warn(msg)\n"}
        meta = {"tags": ["setup"], "editable": False}
        pos = sorted(r.sample(range(len(base["cells"]) + 1), min(2, len(base["cells"]) + 1)))
        n_occ = r.choice([2, 3])
        new_cells = []
        for j in range(n_occ):
            c = _code_cell(gen, m, "import lib\nlib.call(%d)\n" % (j if r.random() < 0.5 else 0), [copy.deepcopy(warn)])
            c["execution_count"] = None
            c["metadata"] = copy.deepcopy(meta)
            new_cells.append(c)
        for nb in (base, loc, rem):
            for j, c in enumerate(new_cells):
                nb["cells"].insert(min(pos[0] + 2 * j, len(nb["cells"])), copy.deepcopy(c))
        where = [i for i, c in enumerate(base["cells"]) if c.get("source", "").startswith("import lib")]
        li, ri = r.choice(where), r.choice(where)
        what = r.choice(["output_text", "output_text", "metadata", "source"])
        for side, nb, i in (("local", loc, li), ("remote", rem, ri)):
            c = nb["cells"][i]
            if what == "output_text":
                c["outputs"][0]["text"] = c["outputs"][0]["text"].replace("deprecated", "deprecated (%s)" % side)
            elif what == "metadata":
                c["metadata"]["tags"] = c["metadata"]["tags"] + [side]
            else:
                c["source"] += "# %s\n" % side
            if r.random() < 0.3:
                break
        info = {"occurrences": where, "local_edits": li, "remote_edits": ri, "what": what}
    elif cls == "same_frame_insert":
        # both sides insert a block at the SAME line position of a source (or stream text); the two blocks open and
        # close with the same line (a blank line, a separator comment) around different bodies
        n = r.choice([2, 3, 5])
        lines = ["stmt_%d = %d" % (j, r.randrange(100)) for j in range(n)]
        fin = r.choice(["\n", ""])
        c = gen.cell(m, "code")
        c["source"] = "\n".join(lines) + fin
        c["outputs"], c["execution_count"] = [], None
        pos = r.randrange(len(base["cells"]) + 1)
        for nb in (base, loc, rem):
            nb["cells"].insert(pos, copy.deepcopy(c))
        j = r.randrange(1, n) if n > 1 else 1
        frame = r.choice(["", "", "# ---", "    "])
        frame_end = frame if r.random() < 0.8 else r.choice(["", "# end"])
        def block(tag):
            body = ["def f_%s(x):" % tag, "    return x + %d" % r.randrange(9)][: r.choice([1, 2])]
            return [frame] + body + [frame_end]
        ll = lines[:j] + block("local") + lines[j:]
        rl = lines[:j] + block("remote") + lines[j:]
        loc["cells"][pos]["source"] = "\n".join(ll) + fin
        rem["cells"][pos]["source"] = "\n".join(rl) + fin
        info = {"pos": pos, "line": j, "frame": frame}
    elif cls == "cr_progress":
        # text without any LF but with other separators Python's splitlines knows (a progress bar redrawn with bare CR,
        # form feeds, U+2028): both sides re-ran / edited it differently, in a stream, a metadata string or a source
        sep = r.choice(["\r", "\r", "\x0c", "\u2028", "\x0b"])
        def bar(n, tag=""):
            return sep.join("%3d%%|%s| %d/100%s" % (p_, "#" * (p_ // 20), p_, tag) for p_ in range(0, n + 1, 25))
        where = r.choice(["stream", "stream", "metadata", "source"])
        c = _code_cell(gen, m, "for i in tqdm(range(100)): step(i)\n", [{"output_type": "stream", "name": "stderr", "text": bar(100)}])
        c["execution_count"] = 1
        pos = r.randrange(len(base["cells"]) + 1)
        for nb in (base, loc, rem):
            nb["cells"].insert(pos, copy.deepcopy(c))
        lv, rv = bar(100, " L"), (bar(75) + sep + "done" if r.random() < 0.5 else bar(100, " R"))
        for nb, v in ((loc, lv), (rem, rv)):
            cc = nb["cells"][pos]
            if where == "stream":
                cc["outputs"][0]["text"] = v
            elif where == "metadata":
                cc["metadata"]["progress"] = v
            else:
                cc["source"] = v
        if where == "metadata":
            base["cells"][pos]["metadata"]["progress"] = bar(100)
        elif where == "source":
            base["cells"][pos]["source"] = bar(100)
        info = {"pos": pos, "where": where, "sep": repr(sep)}
    elif cls == "both_reid" and m >= 5:
        # both branches gave the SAME (otherwise aligned) cells new ids - a tool that regenerates ids on save
        ks = r.sample(range(len(base["cells"])), min(len(base["cells"]), r.choice([1, 1, 2])))
        for k_ in ks:
            loc["cells"][k_]["id"] = gen.new_id()
            rem["cells"][k_]["id"] = gen.new_id() if r.random() < 0.85 else loc["cells"][k_]["id"]
        if r.random() < 0.5:
            tmp_ = {"nbformat": 4, "nbformat_minor": m, "metadata": {}, "cells": [loc["cells"][ks[0]]]}
            mutate_once(tmp_, gen, r.choice(["edit_source", "cell_meta"]))
        info = {"cells": ks}
    elif cls == "both_reid":
        cls = "random"
        loc, r1 = mutate(base, gen, steps=2)
        rem, r2 = mutate(base, gen, steps=2)
        info = {"local": r1, "remote": r2}
    elif cls == "same_id_insert":
        # both branches picked up the SAME new cell (same id where ids exist) at one position and then edited it
        # differently (a little: similar; a lot: dissimilar); one side may also delete / replace the base cell that follows
        c = gen.cell(m, r.choice(["code", "markdown"]))
        c["source"] = "\n".join(gen.line(CODE_LINES) for _ in range(4)) + "\n"
        pos = r.randrange(len(base["cells"]) + 1)
        lc, rc = copy.deepcopy(c), copy.deepcopy(c)
        how = r.choice(["similar", "dissimilar", "dissimilar", "identical", "retyped"])
        if how == "retyped":
            # ... and one branch changed the cell's TYPE on the way (a code cell turned into markdown or raw, or back):
            # same id, same position, different cell types
            other = gen.cell(m, r.choice([t for t in ("code", "markdown", "raw") if t != c["cell_type"]]))
            other["source"] = c["source"] if r.random() < 0.6 else other["source"]
            if "id" in c:
                other["id"] = c["id"]
            else:
                other.pop("id", None)
            rc = other
            if r.random() < 0.5:
                lc, rc = rc, lc
        elif how == "similar":
            lc["source"] += "# local note\n"
            rc["source"] = rc["source"].replace("\n", "  # r\n", 1)
        elif how == "dissimilar":
            lc["source"] = "\n".join(gen.line(CODE_LINES) for _ in range(3)) + "\n"
            rc["source"] = "\n".join(gen.line(MD_LINES if False else CODE_LINES) + " # other" for _ in range(3)) + "\n"
        loc["cells"].insert(pos, lc)
        rem["cells"].insert(pos, rc)
        follow = r.choice(["keep", "keep", "local_deletes", "remote_deletes", "remote_replaces"])
        if pos < len(base["cells"]):
            if follow == "local_deletes":
                del loc["cells"][pos + 1]
            elif follow == "remote_deletes":
                del rem["cells"][pos + 1]
            elif follow == "remote_replaces":
                rem["cells"][pos + 1] = gen.cell(m)
        info = {"pos": pos, "how": how, "follow": follow}
    elif cls == "slash_keys":
        # member names that contain the path separator ("image/png", "widgets/state") next to nested sections spelling the
        # same names (image -> png): the containers under both are edited, so that decisions on /metadata/image/png (one
        # member) and /metadata/image/png (two levels) stand next to each other
        a_, b_ = r.choice([("widgets", "state"), ("image", "png"), ("a", "b")])
        tgt = r.choice(["nb", "cell", "output"])
        blockA = {"v": [1, 2], "t": "x"}
        blockB = {"v": [1], "t": "y"}
        def holder(nb):
            if tgt == "nb" or not nb["cells"]:
                return nb["metadata"]
            if tgt == "cell":
                return nb["cells"][0]["metadata"]
            return nb["cells"][0]["outputs"][0]["metadata"]
        if tgt == "output":
            c = _code_cell(gen, m, "show()\n", [{"output_type": "display_data", "metadata": {}, "data": {"text/plain": "<x>"}}])
            for nb in (base, loc, rem):
                nb["cells"].insert(0, copy.deepcopy(c))
        for nb in (base, loc, rem):
            h = holder(nb)
            h[a_ + "/" + b_] = copy.deepcopy(blockA)
            h[a_] = {b_: copy.deepcopy(blockB), "other": 1}
        how = r.choice(["split", "split", "both_local", "both_sides_each"])
        hl, hr = holder(loc), holder(rem)
        if how == "split":
            hl[a_ + "/" + b_]["v"] = [1, 2, 3]
            hr[a_][b_]["v"] = [1, 9]
        elif how == "both_local":
            hl[a_ + "/" + b_]["t"] = "changed"
            hl[a_][b_]["t"] = "changed too"
            hr[a_]["other"] = 2
        else:
            hl[a_ + "/" + b_]["v"] = [0, 1, 2]
            hl[a_][b_]["t"] = "L"
            hr[a_ + "/" + b_]["t"] = "R"
            hr[a_][b_]["v"] = [1, 5]
        info = {"target": tgt, "how": how, "names": [a_, b_]}
    elif cls == "same_edit_insert_above":
        # both sides make the IDENTICAL in-line edit of one line (the same fix on both branches, the same changed output
        # line after a re-run) and one side (or both, differently) also inserts a new line directly in front of it - in a
        # source, a stream text, a text/plain value and a multi-line metadata string
        n = r.choice([3, 4, 6])
        lines = ["value_%d = compute(%d)" % (j, r.randrange(100)) for j in range(n)]
        text = "\n".join(lines) + "\n"
        c = _code_cell(gen, m, text, [{"output_type": "stream", "name": "stdout", "text": text},
                                      {"output_type": "display_data", "metadata": {}, "data": {"text/plain": text}}])
        c["execution_count"] = None
        c["metadata"]["notes"] = text
        pos = r.randrange(len(base["cells"]) + 1)
        for nb in (base, loc, rem):
            nb["cells"].insert(pos, copy.deepcopy(c))
        j = r.randrange(n)
        fixed = lines[j].replace("compute", "compute_fixed")
        who = r.choice(["local", "remote", "both"])
        def variant(side):
            ls = list(lines)
            ls[j] = fixed
            if who in (side, "both"):
                ls.insert(j, "# inserted above by %s" % side)
            return "\n".join(ls) + "\n"
        where = r.sample(["source", "stream", "text/plain", "metadata"], r.choice([1, 2, 4]))
        for side, nb in (("local", loc), ("remote", rem)):
            cc = nb["cells"][pos]
            t = variant(side)
            if "source" in where:
                cc["source"] = t
            if "stream" in where:
                cc["outputs"][0]["text"] = t
            if "text/plain" in where:
                cc["outputs"][1]["data"]["text/plain"] = t
            if "metadata" in where:
                cc["metadata"]["notes"] = t
        info = {"pos": pos, "line": j, "who_inserts": who, "where": where}
    elif cls == "nul_in_source":
        # a NUL character inside a source (valid JSON, valid notebook): external text tools treat the text as binary
        lines = ["line one of %d" % r.randrange(99), "binary \x00 payload pasted here", "line three", "line four"]
        c = gen.cell(m, r.choice(["code", "markdown"]))
        c["source"] = "\n".join(lines) + r.choice(["", "\n"])
        pos = r.randrange(len(base["cells"]) + 1)
        for nb in (base, loc, rem):
            nb["cells"].insert(pos, copy.deepcopy(c))
        ll, rl = list(lines), list(lines)
        ll[0] += " local"
        rl[r.choice([0, 2, 3])] += " remote"
        loc["cells"][pos]["source"] = "\n".join(ll) + "\n"
        rem["cells"][pos]["source"] = "\n".join(rl) + "\n"
        info = {"pos": pos}
    elif cls == "insert_near":
        for side in (loc, rem):
            cc = r.random()
            if cc < 0.4 and len(side["cells"]) > 0:
                tmp = {"nbformat": 4, "nbformat_minor": m, "metadata": {}, "cells": [side["cells"][k]]}
                mutate_once(tmp, gen, "edit_source")
            elif cc < 0.7 and len(side["cells"]) > 1:
                del side["cells"][k]
            pos = min(len(side["cells"]), max(0, k + r.choice([-1, 0, 0, 1, 1])))
            side["cells"].insert(pos, gen.cell(m))
    elif cls in ("both_insert_similar", "both_insert_dissimilar"):
        pos = r.randrange(len(base["cells"]) + 1)
        n = r.choice([1, 1, 2])
        for j in range(n):
            c1 = gen.cell(m, r.choice(["code", "markdown"]))
            if c1["cell_type"] == "code" and r.random() < 0.5:
                c1["outputs"] = []
            if cls == "both_insert_similar":
                c1["source"] = "\n".join(gen.line(CODE_LINES) for _ in range(4)) + "\n"
                c2 = copy.deepcopy(c1)
                if "id" in c2 and r.random() < 0.7:
                    c2["id"] = gen.new_id()
                cc = r.random()
                if cc < 0.6:
                    c2["source"] = edit_text(c2["source"], gen, CODE_LINES)
                if cc > 0.4 and r.random() < 0.5:
                    c2["metadata"] = gen.metadata(c2["cell_type"])
                if c2["cell_type"] == "code" and r.random() < 0.4:
                    c2["execution_count"] = r.choice([None, 7])
                    if r.random() < 0.5:
                        c2["outputs"] = [gen.output()]
            else:
                c2 = gen.cell(m)
            loc["cells"].insert(pos + j, c1)
            rem["cells"].insert(pos + j, c2)
        if r.random() < 0.3 and pos < len(base["cells"]):
            # and one side also removes/edits the following cell
            side = r.choice([loc, rem])
            del side["cells"][pos + n]
        info = {"pos": pos, "n": n}
    elif cls == "same_attachment":
        c = gen.cell(m, "markdown")
        c["attachments"] = {"a.png": gen.mimebundle(True)} if r.random() < 0.6 else {}
        # leftovers of an earlier conflicted merge that the user resolved only partly
        for left in r.sample(["LOCAL_a.png", "REMOTE_a.png"], r.choice([0, 0, 1, 1, 2])):
            c["attachments"][left] = gen.mimebundle(True)
        if not c["attachments"] and r.random() < 0.5:
            del c["attachments"]
        for nb in (base, loc, rem):
            nb["cells"].insert(0, copy.deepcopy(c))
        for side in (loc, rem):
            att = side["cells"][0].setdefault("attachments", {})
            cc = r.random()
            if "a.png" in att and cc < 0.3:
                del att["a.png"]
            elif cc < 0.75:
                att["a.png"] = gen.mimebundle(True)
            else:
                att[r.choice(["a.png", "b.png"])] = gen.mimebundle(True)
            if r.random() < 0.3:
                att["LOCAL_a.png"] = gen.mimebundle(True)
        if "attachments" in base["cells"][0] and base["cells"][0]["attachments"] and r.random() < 0.2:
            # one side drops the cell's whole `attachments` member (the images were removed from the text), the other
            # edits an attachment in it: remove-vs-patch one level ABOVE the attachment names
            side = r.choice([loc, rem])
            del side["cells"][0]["attachments"]
            other = rem if side is loc else loc
            oa = other["cells"][0].setdefault("attachments", {})
            if canon_eq(oa, base["cells"][0]["attachments"]):
                oa[sorted(base["cells"][0]["attachments"])[0]] = gen.mimebundle(True)
    elif cls in ("same_meta_key", "nbmeta_conflict", "multi_line_meta"):
        target = "nb" if cls == "nbmeta_conflict" or r.random() < 0.3 else "cell"
        key = r.choice(["x", "tags", "nested", "collapsed"])

        def md(nb):
            return nb["metadata"] if target == "nb" else nb["cells"][k]["metadata"]
        if cls == "multi_line_meta":
            key = "doc"
            md(base)[key] = "line one\nline two\nline three\nline four\n"
            md(loc)[key] = md(base)[key].replace("two", r.choice(["TWO", "2"]))
            md(rem)[key] = md(base)[key].replace(r.choice(["two", "three"]), "CHANGED")
            if r.random() < 0.5:
                md(loc)[key] += "local tail"
                md(rem)[key] += "remote tail\n"
        elif key == "tags":
            md(base)[key] = gen.tags()
            md(loc)[key] = gen.tags()
            md(rem)[key] = gen.tags()
        elif key == "collapsed" and target == "cell" and base["cells"][k]["cell_type"] == "code":
            md(base)[key] = True
            md(loc)[key] = False
            if r.random() < 0.5:
                md(rem).pop(key, None)
            else:
                md(rem)[key] = False
                md(rem)["scrolled"] = "auto"
        else:
            key = "x" if key == "collapsed" else key
            if r.random() < 0.7:
                md(base)[key] = gen.value()
            md(loc)[key] = gen.value()
            if r.random() < 0.8:
                md(rem)[key] = gen.value()
            else:
                md(rem).pop(key, None)
        if "nbdime-conflicts" not in md(base) and r.random() < 0.2:
            for nb in (base, loc, rem):
                md(nb)["nbdime-conflicts"] = {"local_diff": [], "remote_diff": []}
            if r.random() < 0.4:      # one side cleaned the recorded conflicts up
                md(r.choice([loc, rem])).pop("nbdime-conflicts")
        info = {"target": target, "key": key}
    elif cls in ("same_output", "both_append_outputs", "out_meta_conflict"):
        c = gen.cell(m, "code")
        c["outputs"] = [gen.output() for _ in range(r.choice([1, 1, 2, 3]))]
        if cls == "out_meta_conflict":
            c["outputs"][0] = gen.output("display_data")
        for nb in (base, loc, rem):
            nb["cells"].insert(0, copy.deepcopy(c))
        for side in (loc, rem):
            outs = side["cells"][0]["outputs"]
            if cls == "both_append_outputs":
                for _ in range(r.choice([1, 1, 2])):
                    outs.append(gen.output())
                if r.random() < 0.3:
                    tmp = {"nbformat": 4, "nbformat_minor": m, "metadata": {}, "cells": [side["cells"][0]]}
                    mutate_once(tmp, gen, "edit_output")
            elif cls == "out_meta_conflict":
                outs[0]["metadata"][r.choice(["a", "b"])] = gen.scalar()
            else:
                tmp = {"nbformat": 4, "nbformat_minor": m, "metadata": {}, "cells": [side["cells"][0]]}
                for _ in range(r.choice([1, 2])):
                    mutate_once(tmp, gen, r.choice(["edit_output", "mime_edit", "out_meta", "rerun", "clear_outputs"]))
    elif cls == "multi_mime_conflict":
        # ONE rich output whose bundle conflicts under two (or three) mime types at once, while one branch alone also
        # touched a sibling member of the output (its metadata / execution count): several decisions below one output,
        # one-sided and two-sided ones side by side
        ot = r.choice(["execute_result", "display_data"])
        out = {"output_type": ot, "metadata": {}, "data": {
            "text/plain": "<Figure size 640x480 with 1 Axes>", "text/html": "<div>\n<p>table</p>\n</div>",
            "text/latex": "$x^2$"}}
        if ot == "execute_result":
            out["execution_count"] = 1
        c = _code_cell(gen, m, "show()\n", [out] + [gen.output() for _ in range(r.choice([0, 0, 1]))])
        c["execution_count"] = 1
        for nb in (base, loc, rem):
            nb["cells"].insert(0, copy.deepcopy(c))
        mimes = r.sample(["text/plain", "text/html", "text/latex"], r.choice([2, 2, 3]))
        for side, tag in ((loc, "L"), (rem, "R")):
            d = side["cells"][0]["outputs"][0]["data"]
            for mt in mimes:
                d[mt] = d[mt] + " " + tag + str(r.randrange(10))
        one = r.choice([loc, rem])
        o = one["cells"][0]["outputs"][0]
        cc = r.random()
        if cc < 0.6:
            o["metadata"][r.choice(["isolated", "needs_background"])] = r.choice([True, "light"])
        elif cc < 0.8 and ot == "execute_result":
            o["execution_count"] = 2
            one["cells"][0]["execution_count"] = 2
        else:
            o["metadata"]["a"] = 1
            o["data"]["application/json"] = {"k": 1}
        info = {"mimes": mimes}
    elif cls == "same_line":
        nl = r.choice([1, 3, 5])
        lines = ["line %d of the cell = %d" % (j, r.randrange(100)) for j in range(nl)]
        final = r.choice(["\n", ""])
        src = "\n".join(lines) + final
        c = gen.cell(m, r.choice(["code", "markdown"]))
        c["source"] = src
        pos = r.randrange(len(base["cells"]) + 1)
        for nb in (base, loc, rem):
            nb["cells"].insert(pos, copy.deepcopy(c))
        j = r.randrange(nl)
        ll, rl = list(lines), list(lines)
        ll[j] = lines[j] + " # local edit %d" % r.randrange(100)
        rl[j] = "remote rewrite %d of " % r.randrange(100) + lines[j]
        mode = r.choice(["distinct", "distinct", "prefix", "suffix", "infix"])
        if mode == "prefix":      # one side's new line continues the other side's new line
            ll[j] = lines[j] + r.choice(["5", " as pd", ".0", " + 1"])
            rl[j] = ll[j] + r.choice(["5", " # more", "0", ", x"])
        elif mode == "suffix":
            ll[j] = r.choice(["# ", "x", "  "]) + lines[j]
            rl[j] = r.choice(["# ", "y", "  "]) + ll[j]
        elif mode == "infix":
            ll[j] = lines[j] + " tail"
            rl[j] = "head " + lines[j] + " tail"
        if mode != "distinct" and r.random() < 0.5:
            ll[j], rl[j] = rl[j], ll[j]
        loc["cells"][pos]["source"] = "\n".join(ll) + final
        rem["cells"][pos]["source"] = "\n".join(rl) + final
        info = {"pos": pos, "line": j, "nlines": nl, "local_line": ll[j], "remote_line": rl[j],
                "id": c.get("id"), "final_newline": bool(final), "mode": mode}
    elif cls == "minor_diff":
        from .gen_edit import change_minor
        mode = r.random()
        if mode < 0.55:
            change_minor(loc, gen)
            change_minor(rem, gen)
        elif mode < 0.8:
            # only ONE branch was re-saved by another Jupyter version (a root-level one-sided decision)
            change_minor(r.choice([loc, rem]), gen)
        else:
            # both branches re-saved by the same version (root-level agreement)
            change_minor(loc, gen)
            tgt = loc["nbformat_minor"]
            for _ in range(12):
                if rem["nbformat_minor"] == tgt:
                    break
                rem["nbformat_minor"] = m
                for c_, b_ in zip(rem["cells"], base["cells"]):
                    c_.pop("id", None)
                    if "id" in b_:
                        c_["id"] = b_["id"]
                change_minor(rem, gen)
        if r.random() < 0.6:
            loc, _ = mutate(loc, gen, steps=1)
            rem, _ = mutate(rem, gen, steps=1)
        info = {"minors": [m, loc["nbformat_minor"], rem["nbformat_minor"]]}
    elif cls == "retype" and base["cells"][k]["cell_type"] != "code" and r.random() < 0.35:
        # both sides turn the same markdown / raw cell into a code cell and run it: the code-only members are ADDED on
        # both sides, the execution counts with different values
        for side_nb, ec in ((loc, r.choice([1, None])), (rem, r.choice([2, 2, 1]))):
            c_ = side_nb["cells"][k]
            c_["cell_type"] = "code"
            c_.pop("attachments", None)
            c_["metadata"].pop("format", None)
            c_["execution_count"] = ec
            c_["outputs"] = [] if ec is None or r.random() < 0.5 else [{"output_type": "execute_result", "execution_count": ec, "metadata": {}, "data": {"text/plain": "%d" % ec}}]
        info = {"k": k, "both_to_code": True}
    elif cls == "retype":
        tmpl = {"nbformat": 4, "nbformat_minor": m, "metadata": {}, "cells": [loc["cells"][k]]}
        mutate_once(tmpl, gen, "retype")
        cc = r.random()
        tmpr = {"nbformat": 4, "nbformat_minor": m, "metadata": {}, "cells": [rem["cells"][k]]}
        if cc < 0.4:
            mutate_once(tmpr, gen, "edit_source")
        elif cc < 0.7:
            mutate_once(tmpr, gen, "retype")
        else:
            mutate_once(tmpr, gen, "cell_meta")
        # a cell turned into a code cell is usually RUN afterwards: counts (different per side) and outputs appear
        for side_nb, ec in ((tmpl, 1), (tmpr, r.choice([1, 2]))):
            c_ = side_nb["cells"][0]
            if c_["cell_type"] == "code" and base["cells"][k]["cell_type"] != "code" and r.random() < 0.6:
                c_["execution_count"] = ec
                if r.random() < 0.5:
                    c_["outputs"] = [{"output_type": "execute_result", "execution_count": ec, "metadata": {}, "data": {"text/plain": "%d" % ec}}]
    elif cls == "empty_source" and r.random() < 0.45:
        # the cell is EMPTY in base (the trailing cell Jupyter leaves) and both sides typed into it
        base["cells"][k]["source"] = ""
        first = gen.line(CODE_LINES)
        lt = "\n".join([first] + [gen.line(CODE_LINES) for _ in range(r.choice([0, 1, 2]))])
        rt = "\n".join(([first] if r.random() < 0.4 else []) + [gen.line(CODE_LINES) + " # r" for _ in range(r.choice([1, 2]))])
        loc["cells"][k]["source"] = lt + r.choice(["", "\n"])
        rem["cells"][k]["source"] = (rt if r.random() < 0.85 else lt) + r.choice(["", "\n"])
        info = {"k": k, "base_empty": True}
    elif cls == "empty_source":
        loc["cells"][k]["source"] = ""
        cc = r.random()
        if cc < 0.4:
            rem["cells"][k]["source"] = ""
        elif cc < 0.6:
            rem["cells"][k]["source"] = edit_text(rem["cells"][k]["source"], gen, CODE_LINES)
        elif cc < 0.9:
            # the other side only toggled the final newline of the text this side cleared (or the sides are swapped)
            src = base["cells"][k]["source"]
            rem["cells"][k]["source"] = src[:-1] if src.endswith("\n") else src + "\n"
            if r.random() < 0.5:
                loc["cells"][k]["source"], rem["cells"][k]["source"] = rem["cells"][k]["source"], loc["cells"][k]["source"]
        if r.random() < 0.3 and cc < 0.6:
            base["cells"][k]["source"] = ""
    elif cls == "exec_count":
        base_ec = r.choice([1, None, None])      # never-executed in base: the 'clear' action then clears a null value
        for nb, ec in ((base, base_ec), (loc, 2), (rem, 3)):
            for c in nb["cells"]:
                if c["cell_type"] == "code":
                    c["execution_count"] = ec
                    for o in c["outputs"]:
                        if o["output_type"] == "execute_result":
                            o["execution_count"] = ec
        if r.random() < 0.5:
            loc, _ = mutate(loc, gen, steps=1)
    if plain_eol:
        for nb in (base, loc, rem):
            for c in nb["cells"]:
                c["source"] = _plain(c["source"])
    return cls, base, loc, rem, info


def _plain(s):
    for sep in EXOTIC_SEPS:
        s = s.replace(sep, " ")
    s = s.replace("\r\n", "\n").replace("\r", "\n")
    return s


def valid_triple(gen, cls=None, minor=None, plain_eol=False, tries=5):
    waste = 0
    for _ in range(tries):
        cls2, b, l, rm, info = merge_triple(gen, cls, minor, plain_eol)
        if not validate_nb(b) and not validate_nb(l) and not validate_nb(rm):
            if gen.rng.random() < 0.2:
                b, l, rm = shuffle_keys(b, gen.rng), shuffle_keys(l, gen.rng), shuffle_keys(rm, gen.rng)
                info = dict(info, member_order="shuffled")
            return cls2, b, l, rm, info, waste
        waste += 1
    return None, None, None, None, None, waste


# --- merge configurations -----------------------------------------------------
MERGE_STRATS = ["inline", "use-base", "use-local", "use-remote"]
INPUT_STRATS = [None, "inline", "use-base", "use-local", "use-remote"]
OUTPUT_STRATS = [None, "inline", "use-base", "use-local", "use-remote", "remove", "clear-all"]


def all_merge_configs():
    """The 4 x 5 x 7 x 2 CLI combinations + mergetool x 2 = 282 configurations, as flag lists."""
    out = []
    for ms in MERGE_STRATS:
        for ins in INPUT_STRATS:
            for outs in OUTPUT_STRATS:
                for tr in (True, False):
                    out.append({"merge": ms, "input": ins, "output": outs, "ignore_transients": tr})
    for tr in (True, False):
        out.append({"merge": "mergetool", "input": None, "output": None, "ignore_transients": tr})
    return out


def config_flags(cfg):
    flags = []
    if cfg["merge"] != "mergetool":
        flags += ["--merge-strategy", cfg["merge"]]
    if cfg["input"]:
        flags += ["--input-strategy", cfg["input"]]
    if cfg["output"]:
        flags += ["--output-strategy", cfg["output"]]
    if not cfg["ignore_transients"]:
        flags += ["--no-ignore-transients"]
    return flags


_ARGS_CACHE = {}


def merge_args(cfg):
    """Namespace produced by the REAL nbmerge parser from the flag list; 'mergetool' is
    assigned the way ApiMergeHandler does it."""
    key = (cfg["merge"], cfg["input"], cfg["output"], cfg["ignore_transients"])
    if key not in _ARGS_CACHE:
        import nbdime.nbmergeapp as app
        ns = app._build_arg_parser().parse_args(config_flags(cfg) + ["", "", ""])
        if cfg["merge"] == "mergetool":
            ns.merge_strategy = "mergetool"
        _ARGS_CACHE[key] = ns
        from .nbd import quiet_logging
        quiet_logging()
    ns = copy.copy(_ARGS_CACHE[key])
    if cfg.get("log_level"):
        ns.log_level = cfg["log_level"]      # what --log-level leaves on the options object
    return ns


def covering_configs(rng, k):
    """k configurations such that value pairs get covered quickly: default, mergetool, then random.  One in six runs at
    log level DEBUG (the library then pretty-prints its inputs, diffs and decisions on the way)."""
    cfgs = [{"merge": "inline", "input": None, "output": None, "ignore_transients": True},
            {"merge": "mergetool", "input": None, "output": None, "ignore_transients": True}]
    allc = all_merge_configs()
    while len(cfgs) < k:
        cfgs.append(rng.choice(allc))
    cfgs = [dict(c) for c in cfgs[:k]]
    for c in cfgs:
        if rng.random() < 1 / 6:
            c["log_level"] = "DEBUG"
    return cfgs


def degenerate_docs():
    """Small valid notebooks made of EMPTY parts where emptiness is legal: no cells, empty sources, empty output
    lists / data bundles / tracebacks / attachments / tag lists, whitespace-only sources.  Enumerated exhaustively
    (ordered pairs, ordered triples) by C01 / C03 / C04."""
    def mk(cells, md=None):
        return {"nbformat": 4, "nbformat_minor": 4, "metadata": md or {}, "cells": cells}

    def code(src="", outs=None, ec=None, md=None):
        return {"cell_type": "code", "metadata": md or {}, "source": src, "execution_count": ec, "outputs": outs if outs is not None else []}

    def mdc(src="", att=None):
        c = {"cell_type": "markdown", "metadata": {}, "source": src}
        if att is not None:
            c["attachments"] = att
        return c
    return [mk([]), mk([code()]), mk([code("", [{"output_type": "display_data", "metadata": {}, "data": {}}])]),
            mk([code("", [{"output_type": "stream", "name": "stdout", "text": ""}])]),
            mk([code("", [{"output_type": "error", "ename": "", "evalue": "", "traceback": []}])]),
            mk([mdc("", {})]), mk([mdc("", {"a.png": {}})]), mk([mdc("x", {"a.png": {"image/png": ""}})]),
            mk([code("\n")]), mk([code("\n\n")]),
            mk([code("", [{"output_type": "execute_result", "execution_count": None, "metadata": {}, "data": {"text/plain": ""}}])]),
            mk([code(), code()]), mk([mdc(), mdc(), mdc()]), mk([code("", [], None, {"tags": []})]),
            mk([], {"kernelspec": {"name": "", "display_name": ""}}),
            mk([{"cell_type": "raw", "metadata": {}, "source": ""}])]
