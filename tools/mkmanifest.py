#!/usr/bin/env python3
"""Regenerate MANIFEST.json from the table below; a property is claimed iff vmon/props/<id>.py exists."""
import json, os
here = os.path.dirname(os.path.dirname(os.path.abspath(__file__)))
P = {
 "C01": ("exploration", "boundary monitor on diff_notebooks/patch_notebook + independent reference patcher + file interface (nbdiff --out / nbpatch -o, re-used output paths, subprocesses also under a C locale) over seeded notebook pairs incl. size-boundary classes; two shards under python -O",
         "Held on the generated executions only: every pair of the run is judged by nbdime's patch, an independent reference patcher and the emptiness clause; heuristic branches reached are counted in the evidence.",
         "Reference patcher vmon/refdiff.py encodes docs/source/diffing.rst; inputs are schema-valid by self-check; nbformat read/write is trusted."),
 "C02": ("exploration", "boundary monitor on nbdime.diff/patch with type-strict canonical JSON + independent reference patcher; exhaustive small spaces + random, chained (patch result diffed again), JSON-transported diffs, long documents; two shards under python -O",
         "Exhaustive for the enumerated small spaces (lists<=N, strings<=N, dicts, nestings), sampled beyond; no claim outside executions observed.",
         "Reference patcher vmon/refdiff.py encodes docs/source/diffing.rst."),
 "C03": ("exploration", "never-raises monitor (M-NOEXC) on merge_notebooks over generated triples (37 classes + exhaustive degenerate documents) x strategy combinations x PATH variants (git / diff3 / diff only / none / directory with blanks) x user git configurations (conflict styles, unparsable); every fifth merge called from a worker thread, one in six at log level DEBUG",
         "Held on the merges executed; arms of the chunk switch reached are counted.", "Inputs valid by self-check; args produced by the real nbmerge parser."),
 "C04": ("exploration", "jsonschema oracle (nbformat's per-minor schema) on every merged notebook of the C03 stream, all minors",
         "Held on the merges executed.", "nbformat's shipped schema files are the definition of validity."),
 "C05": ("exploration", "law monitors (identity, one-sided, agreement, symmetry) on merge_notebooks (incl. the documented union strategy) and decide_merge+apply_decisions; exhaustive small generic triples and line-edit pairs; long documents; one shard under python -O",
         "Exhaustive for enumerated generic spaces, sampled for notebooks.", "Symmetry precondition evaluated conservatively (excluded triples are counted, not judged)."),
 "C06": ("exploration", "by-construction expected merge (ownership bookkeeping) compared with merge result; conflict flags",
         "Held on generated disjoint-ownership triples.", "Expected result built by the generator without nbdime."),
 "C07": ("exploration", "line survival / provenance / conflict-flag oracle on merged sources under git merge-file, diff3, built-in renderers",
         "Held on generated triples x 3 renderers.", "Closed list of marker regexes; blank lines ignored as the property states."),
 "C08": ("fault_enumeration", "real nbmerge / git-nbmergedriver processes; sys.monitoring failpoints at every named step boundary x {OSError in six shapes, MemoryError, KeyboardInterrupt, SIGKILL}; real faults (/dev/full, closed pipe); exit status and output bytes judged against an independent library merge of the intended inputs; real `git merge` runs",
         "Every listed boundary x fault kind for each sampled case; not every instruction.", "A fault inside a pure computation step behaves like one at its entry (nothing written yet)."),
 "C09": ("exploration", "independent decision applier + schema validation + ordering oracle on decisions from merge_notebooks",
         "Held on generated triples.", "vmon/refapply.py encodes docs/source/merging.rst."),
 "C10": ("exploration", "differential monitor: use-X strategy run (whole-notebook and split merge/input/output variants) vs relabelled mergetool decisions applied; line provenance of merged sources",
         "Held on generated conflicting triples.", "Both sides of the comparison are produced by the real code."),
 "C11": ("exploration", "structural well-formedness checker + schema + JSON round trip on every diff returned and every diff embedded in decisions",
         "Held on all diffs observed.", "Checker vmon/refdiff.py encodes the documented format."),
 "C12": ("exploration", "fresh-interpreter differential replay (documents re-ordered member-wise) of every diff/merge op of hostile in-process histories (wide documents, configure-after-use, both directions of threshold-straddling pairs, revision chains) + global-state watcher",
         "Held on generated histories.", "Fresh process gets same env, PATH, hash seed."),
 "C13": ("exploration", "snapshot/compare of every argument around every public call (diff, patch, merge, decide, apply, printers; also caller-ordered diffs and decisions) + aliasing probe on results",
         "Held on monitored calls.", "Canonical JSON sorts keys: key order is not content."),
 "C14": ("exploration", "path classifier over the diff tree + projected round trip, all 64 ignore subsets x 5 configuration routes (positive / negative flags, Ignore mapping direct and via config file, category booleans of a config file through plain and sub-command entry points) + key-list filters",
         "All 64 x 3 configurations, sampled pairs.", "Category->path table from CLI help/docs."),
 "C15": ("translation_validation", "same (base,diff)/(base,decisions) run through Python and the real TypeScript sources (node 22 type stripping), results compared",
         "Each case is one program through both implementations.", "Needs Node >= 22.13 on the image; loader elides type-only imports as tsc does; @lumino/coreutils and json-stable-stringify stubbed."),
 "C16": ("exploration", "never-raises + output oracles (silent on empty, action line when touched, no ESC without colour) on pretty_print_* over configurations x renderers",
         "Held on renderings observed.", "git config isolated."),
 "C17": ("exploration", "changed_notebooks/nbdiff vs git CLI on generated repositories (clean filters, mode-only changes, refs named like paths, tracked paths turned into directories / directories into files, absolute filters); cwd watcher; CLI sequences in one process",
         "Held on generated repositories/ref pairs/cwds.", "git CLI is ground truth."),
 "C18": ("exploration", "before/after snapshots of git config + attributes + file tree around real config commands against real git (both scopes, XDG modes, repository layouts, hand-registered drivers, foreign tools named like nbdime)",
         "Sequences up to length 3 over sampled initial states; --system scope not exercised.", "HOME/XDG isolated; stubs for jupyter_server/jinja2."),
 "C19": ("exploration", "executable model of docs/source/config.rst vs build_config / real parsers (all flag spellings argparse accepts) / --config listing, over layered config files",
         "Held on generated layouts.", "Model written from the docs, never imports nbdime.config."),
 "C20": ("exploration", "in-process tornado server (real handlers, stub jupyter_server/jinja2), HTTP client-boundary history, disk snapshots, audit hooks",
         "Held on generated request sequences per mode.", "Stub JupyterHandler/APIHandler are thin tornado handlers."),
}
checks, na = [], []
for pid, (cat, tech, text, note) in P.items():
    if os.path.exists(os.path.join(here, "vmon", "props", pid.lower() + ".py")):
        checks.append({
            "property_id": pid,
            "quick_cmd": "./check %s --tier quick" % pid,
            "thorough_cmd": "./check %s --tier thorough" % pid,
            "evidence_file": "/verif/evidence/%s.json" % pid,
            "replay_cmd_template": "./check %s --replay {path}" % pid,
            "engine": "vmon",
            "level_claimed": {"category": cat, "text": text, "design_ref": "DESIGN.md section 4, " + pid},
            "level_note": note,
            "technique": "runtime monitoring: " + tech,
        })
    else:
        na.append({"property_id": pid, "reason": "check not built yet in this round (planned: runtime monitoring, see DESIGN.md section 4 %s); not claimed until it runs" % pid})
m = {
 "version": 1,
 "setup_cmd": "/venv/bin/pip install -q --no-index --find-links /opt/veriftools/wheels --target /verif/.deps icontract deal >/dev/null 2>&1; chmod +x /verif/check; true",
 "hooks": {"guard": "NBDIME_VERIF", "enable": "no source hooks: monitors are installed from the harness (wrappers, audit hooks, sys.monitoring); NBDIME_VERIF is reserved and unused",
           "baseline_off_cmd": "cd /repo && /venv/bin/python -m pytest -ra -q -p no:cacheprovider --timeout=900 --continue-on-collection-errors",
           "source_commits": [], "add_only": True},
 "engines": [{"name": "vmon", "path": "/verif/vmon", "serves_properties": [c["property_id"] for c in checks],
              "kind_free_text": "runtime monitors: boundary wrappers, reference models, state watchers, audit hooks, sys.monitoring failpoints, differential replay; sharded over worker subprocesses"}],
 "checks": checks,
 "not_applicable": na,
 "notes": "All checks decide by observing executions of the real code in /repo (PYTHONPATH, no install step). Exit 0 held, 1 violation (VIOLATION line + replay), 2 inconclusive. Known findings: /verif/known_findings.json.",
}
json.dump(m, open(os.path.join(here, "MANIFEST.json"), "w"), indent=1)
print("claimed:", [c["property_id"] for c in checks])
