#!/bin/bash
# tools/seeded.sh [ids...]: run each seeded break's demo (must fail with the patch, pass without) and the property's checks
# against a scratch copy of /repo with the patch applied (VERIF_REPO); prints CAUGHT / MISSED per check.
cd /verif
ids=${@:-$(ls seeded)}
for id in $ids; do
  dir=seeded/$id
  [ -f $dir/patch.diff ] || continue
  props=$(python3 -c "import json;m=json.load(open('$dir/meta.json'));print(' '.join(m.get('checks', [m['property']])))")
  TIER=${TIER:-quick} tools/mutant.sh $dir/patch.diff $props | sed "s/^/[$id] /"
done
