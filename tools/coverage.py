#!/venv/bin/python
"""tools/coverage.py <prop> [<prop> ...]: which executable lines of /repo/nbdime (tests excluded) do the QUICK workloads
of these checks never reach?  Runs each check with VMON_COVERAGE (workers record sys.monitoring LINE events), merges,
and lists uncovered lines per function for the files named on VMON_COV_FILES (default: the merge/diff core).
A planning aid for workloads (where could a change hide?), not a verdict."""
import glob, json, os, subprocess, sys, tempfile
REPO = os.environ.get("VERIF_REPO", "/repo")
FILES = os.environ.get("VMON_COV_FILES", "merging/generic.py merging/decisions.py merging/strategies.py merging/chunks.py merging/notebooks.py "
                       "diffing/generic.py diffing/notebooks.py diffing/snakes.py diffing/sequences.py diff_utils.py patching.py "
                       "prettyprint.py gitfiles.py config.py args.py utils.py nbmergeapp.py nbdiffapp.py vcs/git/filter_integration.py "
                       "vcs/git/mergedriver.py vcs/git/diffdriver.py webapp/nbdimeserver.py").split()


def executable_lines(path):
    src = open(path).read()
    code = compile(src, path, "exec")
    out = {}

    def walk(co, qual):
        name = qual + "." + co.co_name if qual else co.co_name
        for _s, _e, ln in co.co_lines():
            if ln is not None and ln != co.co_firstlineno:
                out.setdefault(ln, name)
        for c in co.co_consts:
            if hasattr(c, "co_lines"):
                walk(c, name if co.co_name != "<module>" else "")
    walk(code, "")
    return out


def main():
    props = sys.argv[1:]
    d = tempfile.mkdtemp(prefix="vmon-cov-")
    seen = set()
    for p in props:
        env = dict(os.environ, VMON_COVERAGE=os.path.join(d, p))
        subprocess.run(["/verif/check", p], env=env, stdout=subprocess.DEVNULL, stderr=subprocess.DEVNULL)
    for f in glob.glob(os.path.join(d, "*")):
        for fn, ln in json.load(open(f)):
            seen.add((fn, ln))
    for rel in FILES:
        path = os.path.join(REPO, "nbdime", rel)
        ex = executable_lines(path)
        miss = sorted(ln for ln in ex if (rel, ln) not in seen)
        print("== %s: %d of %d executable lines never reached" % (rel, len(miss), len(ex)))
        byfn = {}
        for ln in miss:
            byfn.setdefault(ex[ln], []).append(ln)
        for fn, lns in sorted(byfn.items(), key=lambda kv: kv[1][0]):
            print("   %-45s %s" % (fn[-45:], " ".join(map(str, lns))))
    import shutil
    shutil.rmtree(d, ignore_errors=True)


main()
