#!/venv/bin/python
import json, jsonschema, glob, sys
jsonschema.validate(json.load(open('/verif/MANIFEST.json')), json.load(open('/root/.vp/MANIFEST.schema.json')))
s = json.load(open('/root/.vp/EVIDENCE.schema.json'))
bad = 0
for f in sorted(glob.glob('/verif/evidence/*.json')):
    try:
        jsonschema.validate(json.load(open(f)), s)
    except Exception as e:
        bad += 1; print('INVALID', f, str(e)[:300])
print('manifest ok; evidence files checked:', len(glob.glob('/verif/evidence/*.json')), 'invalid:', bad)
sys.exit(1 if bad else 0)
