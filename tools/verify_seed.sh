#!/bin/bash
# tools/verify_seed.sh <ID> [src-dir]: confirm a seeded break (demo passes without / fails with the patch, suite unchanged),
# run the property's checks against it, and store it under /verif/seeded/<ID>/
id=$1; src=${2:-/tmp/seed-out/$id}
d=$(mktemp -d /tmp/nbdime-seed-XXXXXX)
rsync -a --exclude node_modules --exclude .git /repo/ "$d/"
cd "$d"
DEMO_REPO=$d PYTHONPATH=$d timeout 600 /venv/bin/python $src/demo.py > /tmp/demo-before.txt 2>&1; rb=$?
if ! patch -p1 -s < $src/patch.diff; then echo "[$id] PATCH-FAILED"; rm -rf "$d"; exit 3; fi
DEMO_REPO=$d PYTHONPATH=$d timeout 600 /venv/bin/python $src/demo.py > /tmp/demo-after.txt 2>&1; ra=$?
suite=$(BASE_REPO=$d /verif/tools/baseline.py | head -1)
echo "[$id] demo before=$rb after=$ra ; suite: $suite"
mkdir -p /verif/seeded/$id
cp $src/patch.diff $src/demo.py $src/meta.json /verif/seeded/$id/ 2>/dev/null
props=${PROPS:-$id}
results=""
for p in $props; do
  # the verdict on the patched copy only counts if the same check is silent on the unchanged tree
  (cd /verif && ./check "$p" --tier ${TIER:-quick} >/dev/null 2>&1); rc0=$?
  [ $rc0 -ne 0 ] && echo "[$id] BASELINE-ALARM: $p exits $rc0 on the unchanged tree - its verdict below proves nothing"
  out=$(cd /verif && VERIF_REPO="$d" ./check "$p" --tier ${TIER:-quick} 2>&1); rc=$?
  mech=$(echo "$out" | grep -E "mechanism=" | sed -E 's/ clause=.*//; s/^ *//' | sort | uniq -c | head -4 | tr '\n' ';')
  case $rc in 0) v=MISSED;; 1) v=CAUGHT;; *) v=INCONCLUSIVE;; esac
  echo "[$id] $v by $p (tier ${TIER:-quick}) :: $mech"
  results="$results$p:$v "
done
python3 - "$id" "$rb" "$ra" "$suite" "$results" <<'PY'
import json,sys
id,rb,ra,suite,results=sys.argv[1:6]
p='/verif/seeded/%s/meta.json'%id
try: m=json.load(open(p))
except Exception: m={"property":id}
m["verified_by_main"]={"demo_exit_without_patch":int(rb),"demo_exit_with_patch":int(ra),"pinned_suite_with_patch":suite,
   "checks_run":results.strip(),"how":"tools/verify_seed.sh: scratch copy of /repo, patch -p1, demo.py, tools/baseline.py, ./check with VERIF_REPO"}
json.dump(m,open(p,'w'),indent=1)
PY
rm -rf "$d"
