#!/venv/bin/python
"""Run the repository's pinned suite (guard off) and compare with /root/.vp/BASELINE.json stable_pass.
usage: tools/baseline.py [-n JOBS]   exit 0 iff every stable_pass test passed."""
import json, os, subprocess, sys, tempfile, xml.etree.ElementTree as ET
jobs = sys.argv[sys.argv.index("-n") + 1] if "-n" in sys.argv else "16"
base = json.load(open("/root/.vp/BASELINE.json"))
want = set(base["stable_pass"])
fd, xmlf = tempfile.mkstemp(suffix=".xml"); os.close(fd)
env = dict(os.environ); env.pop("NBDIME_VERIF", None)
cmd = ["/venv/bin/python", "-m", "pytest", "-ra", "-q", "-p", "no:cacheprovider", "--timeout=900",
       "--continue-on-collection-errors", "--junitxml=" + xmlf]
if jobs != "0":
    cmd += ["-n", jobs]
subprocess.run(cmd, cwd=os.environ.get("BASE_REPO", "/repo"), env=env, stdout=subprocess.DEVNULL, stderr=subprocess.DEVNULL)
passed = set()
for tc in ET.parse(xmlf).getroot().iter("testcase"):
    if not any(c.tag in ("failure", "error", "skipped") for c in tc):
        passed.add("%s::%s" % (tc.get("classname"), tc.get("name")))
os.unlink(xmlf)
missing = sorted(want - passed)
print("stable_pass=%d passed_now=%d missing=%d" % (len(want), len(passed), len(missing)))
for m in missing[:40]:
    print("  MISSING", m)
sys.exit(1 if missing else 0)
