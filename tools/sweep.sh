#!/bin/bash
# tools/sweep.sh <tier> <seed-from> <seed-to> <props...>: run checks over seeds, print only verdict lines + unlisted mechanisms
tier=$1; a=$2; b=$3; shift 3
for p in "$@"; do
  for s in $(seq $a $b); do
    out=$(VERIF_SEED=$s ./check $p --tier $tier 2>&1)
    rc=$?
    echo "== $p seed=$s tier=$tier rc=$rc $(echo "$out" | grep -E "^C[0-9]+ tier" | sed 's/monitors=.*wall/wall/')"
    echo "$out" | grep -E "mechanism=" | sed -E 's/detail=.*//' | sort | uniq -c
    echo "$out" | grep -E "^INCONCLUSIVE" | head -3
  done
done
