#!/venv/bin/python
"""debug helper: tools/tb.py <replay.json> -- re-run a merge/diff witness and print the real traceback"""
import sys, json, os, traceback, warnings
sys.path[:0] = [os.environ.get("VERIF_REPO", "/repo"), "/verif"]
warnings.simplefilter("ignore")
v = json.load(open(sys.argv[1])); c = v["case"]
from vmon import nbd
from vmon.gen_nb import to_node
print(v["mechanism"], v["detail"][:300])
if "base" in c:
    from vmon.workloads import merge_args
    print("info", c.get("info"), c["config"], c.get("path_variant"))
    try:
        m, d = nbd.merge_notebooks(to_node(c["base"]), to_node(c["local"]), to_node(c["remote"]), merge_args(c["config"]))
        print("returned", len(d), "decisions")
        for x in d: print(json.dumps(x, default=repr)[:400])
    except Exception:
        traceback.print_exc()
    if "-v" in sys.argv:
        for k in ("base", "local", "remote"): print(k, json.dumps(c[k])[:3000])
