#!/bin/bash
# tools/mutant.sh <patch.diff> <prop> [<prop>...]  -- run checks against a scratch copy of /repo with the patch applied
# prints per prop: CAUGHT (exit 1 with VIOLATION) / MISSED (exit 0) / INCONCLUSIVE (exit 2)
patch=$(readlink -f "$1"); shift
d=$(mktemp -d /tmp/nbdime-mut-XXXXXX)
rsync -a --exclude node_modules --exclude .git --exclude 'packages/*/node_modules' /repo/ "$d/"
if ! (cd "$d" && patch -p1 -s < "$patch"); then echo "PATCH-FAILED $patch"; rm -rf "$d"; exit 3; fi
for p in "$@"; do
  out=$(cd /verif && VERIF_REPO="$d" ./check "$p" --tier ${TIER:-quick} 2>&1); rc=$?
  mech=$(echo "$out" | grep -E "mechanism=" | sed -E 's/ clause=.*//' | sort | uniq -c | head -4 | tr '\n' ';')
  case $rc in 0) v=MISSED;; 1) v=CAUGHT;; *) v=INCONCLUSIVE;; esac
  echo "$v $p rc=$rc $(basename $patch) :: $mech"
done
rm -rf "$d"
